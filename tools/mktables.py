#!/usr/bin/env python3
"""Print the markdown tables of DESIGN.md 9.6 (seed matrix) and 9.7 (measured tiers) from
seeded/RESULTS.json, seeded/*/notes and evidence/*.json.  Usage: mktables.py seeds|tiers [thorough-log]"""
import glob
import json
import os
import re
import sys

V = "/verif"
sys.path.insert(0, V + "/tools")


def first_line(sd):
    for n in ("NOTES.md", "notes.md", "README.md", "notes.txt", "NOTES.txt", "README", "DESCRIPTION.md"):
        p = os.path.join(sd, n)
        if os.path.exists(p):
            for l in open(p, errors="replace"):
                l = l.strip().lstrip("#").strip()
                if l:
                    return l
    m = os.path.join(sd, "meta.json")
    if os.path.exists(m):
        j = json.load(open(m))
        for k in ("title", "summary", "change"):
            if k in j:
                return str(j[k])
    p = os.path.join(sd, "patch.diff")
    for l in open(p, errors="replace"):
        if l.startswith("+++ "):
            return "change in " + l[4:].strip().replace("b/", "", 1)
    return ""


def seeds():
    res = json.load(open(V + "/seeded/RESULTS.json"))
    print("| seed | change (first line of the author's notes) | detected | rule / harness that fires |")
    print("|---|---|---|---|")
    nd = 0
    for sid in sorted(res):
        sd = os.path.join(V, "seeded", sid)
        if not os.path.isdir(sd):
            continue
        own = sid.split("-")[0] + ":quick"
        ent = res[sid]
        det = [k for k, v in ent.items() if v.get("detected")]
        r = ent.get(own) or next(iter(ent.values()))
        d = "yes" if r.get("detected") else ("by " + ",".join(det) if det else "NO")
        if r.get("detected") or det:
            nd += 1
        f = (r.get("first") or [""])[0] if r.get("detected") else ((ent[det[0]].get("first") or [""])[0] if det else "")
        m = re.match(r"rule=(\S+) harness=(\S+?):", f)
        rule = "%s harness=%s" % (m.group(1), m.group(2)) if m else f[:60]
        print("| %s | %s | %s | %s |" % (sid, first_line(sd).replace("|", "/")[:130], d, rule))
    print()
    print("detected: %d of %d" % (nd, len([s for s in res if os.path.isdir(os.path.join(V, "seeded", s))])))


def tiers(tlog=None):
    import checks as CK
    th = {}
    if tlog and os.path.exists(tlog):
        cur = None
        for l in open(tlog, errors="replace"):
            m = re.search(r"(C\d\d) thorough: .*?executions=(\d+) exhaustive=(\w+).*?known=(\d+) wall=([\d.]+)s", l)
            if m:
                th[m.group(1)] = "%s exec, %s s, exhaustive=%s%s" % (m.group(2), m.group(5), m.group(3),
                                                                    ", known finding shown" if m.group(4) != "0" else "")
    print("| id | quick: executions | states / traces | wall | quick runs (harness + bounds) | thorough tier as run |")
    print("|---|---|---|---|---|---|")
    for cid in sorted(CK.CHECKS):
        p = "%s/evidence/%s.json" % (V, cid)
        if not os.path.exists(p):
            continue
        e = json.load(open(p))
        cov = e.get("coverage", {})
        runs = " ; ".join("%s %s" % (r["harness"], " ".join(a for a in r["args"].split()
                                                          if a.split("=")[0] in ("bound", "part", "mode", "steps", "cycles", "height",
                                                                                 "universe", "n", "keys", "depth", "presets")))
                          for r in CK.CHECKS[cid]["quick"])
        wall = e.get("wall_s", "")
        print("| %s | %s | %s | %s s | %s | %s |" % (cid, cov.get("traces_validated_against_impl", ""), cov.get("states", ""),
                                                  round(wall) if isinstance(wall, (int, float)) else wall, runs[:230], th.get(cid, "")))


if __name__ == "__main__":
    if len(sys.argv) > 1 and sys.argv[1] == "tiers":
        tiers(sys.argv[2] if len(sys.argv) > 2 else None)
    else:
        seeds()
