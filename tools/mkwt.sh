#!/bin/bash
# usage: mkwt.sh <dir>  -- scratch git worktree of /repo, with the generated
# autotools files copied over, configured and built (outside /repo and /verif).
set -e
d="$1"
git -C /repo worktree add --detach "$d" HEAD >/dev/null 2>&1
# copy generated, git-ignored build infrastructure (not objects)
cd /repo
rsync -a --exclude='.git' --exclude='*.o' --exclude='*.lo' --exclude='*.la' --exclude='.libs' --exclude='.deps' \
  --exclude='*.log' --exclude='*.trs' --exclude='autom4te.cache' \
  --include='*/' --include='configure' --include='Makefile.in' --include='aclocal.m4' --include='config.guess' \
  --include='config.sub' --include='compile' --include='depcomp' --include='install-sh' --include='missing' \
  --include='test-driver' --include='config.h.in' --include='ltmain.sh' --exclude='*' ./ "$d"/
cd "$d"
./configure -q >/dev/null 2>&1
make -j16 >/dev/null 2>&1
echo "worktree ready: $d"
