#!/usr/bin/env python3
"""seedrun.py [--tier quick] <seed-id>... | --all : apply each seeded change to /repo, run the check of the property it
breaks (plus --also ids), undo; record detection in /verif/seeded/RESULTS.json"""
import json, os, subprocess, sys, time
tier = "quick"; also = []; ids = []
a = sys.argv[1:]
while a:
    x = a.pop(0)
    if x == "--tier": tier = a.pop(0)
    elif x == "--also": also = a.pop(0).split(",")
    elif x == "--all": ids = sorted(d for d in os.listdir("/verif/seeded") if os.path.isdir("/verif/seeded/" + d))
    else: ids.append(x)
REPO = os.environ.get("VERIF_REPO", "/repo")
BUILD = os.environ.get("VERIF_BUILD") or "/verif/build"
# SEEDRUN_FAST=1: stop a check at the first run that reports a violation, and give it a generous deadline (several
# instances may share the machine; a seed must not count as missed because a deadline cut the exploration short)
FAST = "VERIF_STOP_AT_FIRST_VIOLATION=1 VERIF_DEADLINE_S=900" if os.environ.get("SEEDRUN_FAST") else ""
respath = "/verif/seeded/RESULTS.json"
res = json.load(open(respath)) if os.path.exists(respath) else {}
def sh(c, **k): return subprocess.run(c, shell=True, stdout=subprocess.PIPE, stderr=subprocess.STDOUT, text=True, **k)
sys.path.insert(0, "/verif/tools"); import checks as CK
for sid in ids:
    prop = sid.split("-")[0]
    props = [prop] + [p for p in also if p != prop]
    if sh("git -C %s diff --quiet" % REPO).returncode != 0:
        print(REPO + " not clean"); sys.exit(3)
    pf = "/verif/seeded/%s/patch.rebased.diff" % sid
    if not os.path.exists(pf):
        pf = "/verif/seeded/%s/patch.diff" % sid
    r = sh("git -C %s apply %s" % (REPO, pf))
    if r.returncode != 0:
        r = sh("cd %s && patch -p1 --fuzz=3 < /verif/seeded/%s/patch.diff" % (REPO, sid))
        if r.returncode != 0:
            print(sid, "PATCH DOES NOT APPLY", r.stdout[-300:]); sh("git -C %s checkout -- ." % REPO); continue
    for p in props:
        if p not in CK.CHECKS:
            print(sid, p, "no check yet"); continue
        t0 = time.time()
        r = sh("VERIF_EVIDENCE_DIR=%s/seed-evidence VERIF_TIER=%s %s /verif/bin/check %s" % (BUILD, tier, FAST, p))
        viol = [l for l in r.stdout.splitlines() if l.startswith("VIOLATION")]
        rules = [l.strip() for l in r.stdout.splitlines() if l.strip().startswith("rule=")]
        res.setdefault(sid, {})[p + ":" + tier] = dict(detected=bool(viol) and r.returncode == 1, exit=r.returncode, first=rules[:2], wall=round(time.time() - t0, 1))
        print(sid, p, tier, "DETECTED" if viol and r.returncode == 1 else "missed (exit %d)" % r.returncode, rules[:1], "%.0fs" % (time.time() - t0))
    sh("git -C %s checkout -- . && git -C %s clean -fdq src" % (REPO, REPO))
    # several instances may be writing: merge under a lock
    import fcntl
    with open(respath + ".lock", "w") as lk:
        fcntl.flock(lk, fcntl.LOCK_EX)
        cur = json.load(open(respath)) if os.path.exists(respath) else {}
        cur.setdefault(sid, {}).update(res.get(sid, {}))
        json.dump(cur, open(respath, "w"), indent=1, sort_keys=True)
