#!/bin/bash
# usage: try_patch.sh <patch.diff> <property-id>... ; applies the patch to /repo, runs the quick checks, reverts.
p="$1"; shift
cd /repo || exit 3
if ! git diff --quiet; then echo "/repo not clean"; exit 3; fi
git apply "$p" || { echo "patch does not apply"; exit 3; }
for id in "$@"; do
  VERIF_TIER=${TIER:-quick} /verif/bin/check "$id" 2>/dev/null | grep -E "VIOLATION|KNOWN|rule=|quick:|thorough:" | head -8
  echo "exit=$? ($id)"
done
git -C /repo checkout -- .
