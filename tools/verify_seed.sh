#!/bin/bash
# usage: verify_seed.sh <Cxx> <A|B> [worktree] [seed-dir] [name-in-/verif/seeded]   -- independently confirm a sub-agent's seeded change in its scratch worktree:
# demo passes on the clean tree; with the patch: builds, `make check` 11/11, demo fails.  Copies it to /verif/seeded/.
id=$1; v=$2; wt=${3:-/tmp/wt_$id}; sd=${4:-/tmp/seed_$id}/$v; name=${5:-$v}
cd $wt || exit 3
git checkout -- . && make -j16 >/dev/null 2>&1 || { echo "clean build failed"; exit 3; }
timeout 300 sh $sd/run_demo.sh >/tmp/vs_clean_$id.log 2>&1; clean_rc=$?
git apply $sd/patch.diff || { echo "patch does not apply"; exit 3; }
make -j16 >/dev/null 2>&1; build_rc=$?
mc=$(make check 2>&1 | grep -E "^# (PASS|FAIL|ERROR):" | tr '\n' ' ')
timeout 300 sh $sd/run_demo.sh >/tmp/vs_mut_$id.log 2>&1; mut_rc=$?
git checkout -- . && make -j16 >/dev/null 2>&1
echo "$id-$name: clean_demo_rc=$clean_rc build_rc=$build_rc make_check=[$mc] mutant_demo_rc=$mut_rc"
if [ $clean_rc -eq 0 ] && [ $build_rc -eq 0 ] && [ $mut_rc -ne 0 ] && echo "$mc" | grep -q "PASS:  11 # FAIL:  0 # ERROR: 0"; then
  d=/verif/seeded/$id-$name; mkdir -p $d
  cp $sd/patch.diff $sd/demo.c $sd/run_demo.sh $sd/notes.md $d/ 2>/dev/null
  tail -5 /tmp/vs_mut_$id.log > $d/demo_output_with_change.txt
  cat > $d/meta.json <<EOM
{"property": "$id", "variant": "$name", "source": "independent sub-agent given only the property text and a scratch worktree",
 "confirmed": {"clean_demo_exit": $clean_rc, "patched_build_exit": $build_rc, "patched_make_check": "$mc", "patched_demo_exit": $mut_rc},
 "ran": "tools/verify_seed.sh $id $v (in $wt: clean build + demo; git apply; make; make check; demo; revert)"}
EOM
  echo "  -> kept in $d"
else
  echo "  -> NOT confirmed"
fi
