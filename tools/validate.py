#!/opt/veriftools/pyvenv/bin/python
import json, jsonschema, sys, glob
s = json.load(open('/root/.vp/EVIDENCE.schema.json'))
ms = json.load(open('/root/.vp/MANIFEST.schema.json'))
ok = True
try:
    m = json.load(open('/verif/MANIFEST.json')); jsonschema.validate(m, ms); print('MANIFEST valid, %d checks' % len(m['checks']))
except Exception as e:
    print('MANIFEST:', e); ok = False
for p in sorted(glob.glob('/verif/evidence/*.json')):
    try:
        jsonschema.validate(json.load(open(p)), s); print(p, 'valid')
    except Exception as e:
        print(p, 'INVALID', str(e)[:300]); ok = False
sys.exit(0 if ok else 1)
