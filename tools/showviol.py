#!/usr/bin/env python3
import json,sys
d=json.load(open(sys.argv[1]))
for b in d['bounds']:
    print({k:b[k] for k in ('bound','complete','executions','max_depth','abnormal','broken_msg','distinct_obs','distinct_states','pruned')})
    for v in b['violations'][:int(sys.argv[2]) if len(sys.argv)>2 else 3]:
        print('VIOL',v['rule'],v['count'],v['confirmed'],v['msg'][:500]); print(' choices',v['choices'][:300]); print(' obs',v['obs'][-900:]); print(v['stderr'][:2500])
