#!/usr/bin/env python3
"""Build machinery: compiles /repo/src/*.c from the CURRENT working tree into
/verif/build/<variant>/ and links harness binaries.  Object files are cached
by a content hash of (source, all library headers, flags)."""
import hashlib, os, subprocess, sys, glob, shutil
from concurrent.futures import ThreadPoolExecutor

VERIF = os.path.dirname(os.path.dirname(os.path.abspath(__file__)))
REPO = os.environ.get("VERIF_REPO", "/repo")
BUILD = os.environ.get("VERIF_BUILD") or os.path.join(VERIF, "build")   # VERIF_BUILD: tools/seedrun.py instances running side by side

LIB_SRCS = """iv_avl iv_event iv_fatal iv_task iv_timer iv_tls iv_work iv_event_raw_posix iv_fd
iv_fd_poll iv_fd_pump iv_main_posix iv_popen iv_signal iv_thread_posix iv_tid_posix
iv_time_posix iv_wait iv_fd_epoll iv_inotify""".split()

# symbols referenced by the library objects that are redirected to ivw_<sym>
# (defined in mc/env.c); everything else goes straight to libc.
WRAP_SYMS = """clock_gettime gettimeofday epoll_create epoll_create1 epoll_ctl epoll_wait epoll_pwait2
poll ppoll timerfd_create timerfd_settime syscall pipe pipe2 read write close fcntl ioctl splice shutdown
setsockopt fork wait4 kill execvp dup2 open sigaction signal getenv inotify_init inotify_add_watch
inotify_rm_watch malloc calloc free strdup abort exit pthread_create pthread_join pthread_detach
pthread_once pthread_key_create pthread_getspecific pthread_setspecific pthread_mutex_init
pthread_mutex_destroy pthread_mutex_lock pthread_mutex_unlock pthread_spin_init pthread_spin_lock
pthread_spin_unlock pthread_spin_trylock pthread_sigmask pthread_atfork pthread_self getpid eventfd
getrlimit setrlimit geteuid getuid""".split()

VARIANTS = {
    "asan": dict(cc="gcc", cflags="-O1 -g -fsanitize=address,undefined -fno-sanitize-recover=undefined -fno-omit-frame-pointer",
                 ldflags="-fsanitize=address,undefined"),
    "plain": dict(cc="gcc", cflags="-O2 -g", ldflags=""),
    "tsan": dict(cc="clang", cflags="-O1 -g -fsanitize=thread -fno-omit-frame-pointer", ldflags="-fsanitize=thread"),
}

GUARD = "BUYTENH_IVYKIS_VERIF"


def sh(cmd, **kw):
    r = subprocess.run(cmd, shell=isinstance(cmd, str), stdout=subprocess.PIPE, stderr=subprocess.STDOUT, text=True, **kw)
    if r.returncode != 0:
        sys.stderr.write("BUILD FAILED: %s\n%s\n" % (cmd, r.stdout))
        raise SystemExit(3)
    return r.stdout


def prune(pattern, keep):
    """drop cached artefacts of the same name that nobody has used for 3 hours (several checks, or checks of
    different trees, may be building at the same time: never remove what another build may be about to link)"""
    import time
    now = time.time()
    for old in glob.glob(pattern):
        try:
            if old != keep and ".tmp" not in old and now - os.stat(old).st_mtime > 3 * 3600:
                os.unlink(old)
        except OSError:
            pass


def touch(path):
    try:
        os.utime(path, None)
    except OSError:
        pass
    return path


def gen_headers():
    """Return include dirs providing config.h and iv.h (generated files)."""
    cfg = os.path.join(REPO, "config.h")
    ivh = os.path.join(REPO, "src/include/iv.h")
    if os.path.exists(cfg) and os.path.exists(ivh):
        return [REPO, os.path.join(REPO, "src/include")]
    conf = os.path.join(BUILD, "conf")
    if not (os.path.exists(os.path.join(conf, "config.h")) and os.path.exists(os.path.join(conf, "src/include/iv.h"))):
        tmp = "%s.tmp%d" % (conf, os.getpid())
        shutil.rmtree(tmp, ignore_errors=True)
        os.makedirs(tmp)
        sh("%s/configure -q" % REPO, cwd=tmp)
        try:
            os.rename(tmp, conf)        # atomic; loses against a concurrent builder that got there first
        except OSError:
            shutil.rmtree(tmp, ignore_errors=True)
    return [conf, os.path.join(conf, "src/include"), REPO, os.path.join(REPO, "src/include")]


def file_hash(paths, extra=""):
    h = hashlib.sha256(extra.encode())
    for p in sorted(paths):
        h.update(p.encode())
        with open(p, "rb") as f:
            h.update(f.read())
    return h.hexdigest()[:20]


def build_lib(variant, wrap=True):
    """compile library objects; returns list of object paths"""
    v = VARIANTS[variant]
    inc = gen_headers()
    incflags = " ".join("-I" + d for d in inc) + " -I%s/src" % REPO
    hdrs = glob.glob(REPO + "/src/*.h") + glob.glob(REPO + "/src/include/*.h") + \
        [p for d in inc for p in glob.glob(d + "/config.h")]
    odir = os.path.join(BUILD, variant, "lib" if wrap else "lib_nowrap")
    os.makedirs(odir, exist_ok=True)
    symmap = os.path.join(odir, "redefine.map")
    with open("%s.%d" % (symmap, os.getpid()), "w") as f:
        for s in WRAP_SYMS:
            f.write("%s ivw_%s\n" % (s, s))
    os.rename("%s.%d" % (symmap, os.getpid()), symmap)
    flags = "-D_GNU_SOURCE -DHAVE_CONFIG_H -D%s %s %s -Wno-unused-result" % (GUARD, incflags, v["cflags"])
    hh = file_hash(hdrs, flags + str(wrap) + " ".join(WRAP_SYMS))

    def one(name):
        src = "%s/src/%s.c" % (REPO, name)
        key = file_hash([src], hh)
        obj = os.path.join(odir, "%s.%s.o" % (name, key))
        if not os.path.exists(obj):
            prune(os.path.join(odir, name + ".*.o"), obj)
            tmp = "%s.tmp%d.o" % (obj, os.getpid())
            sh("%s %s -c %s -o %s" % (v["cc"], flags, src, tmp))
            if wrap:
                sh("objcopy --redefine-syms=%s %s" % (symmap, tmp))
            os.rename(tmp, obj)
        return touch(obj)

    with ThreadPoolExecutor(16) as ex:
        return list(ex.map(one, LIB_SRCS))


def cc_obj(variant, src, extra_flags="", sanitize=True, tag=""):
    v = VARIANTS[variant]
    inc = gen_headers()
    incflags = " ".join("-I" + d for d in inc) + " -I%s/src -I%s/mc -I%s/harness" % (REPO, VERIF, VERIF)
    cflags = v["cflags"] if sanitize else "-O2 -g"
    cc = v["cc"] if sanitize else "gcc"
    flags = "-D_GNU_SOURCE -DHAVE_CONFIG_H -Wall -Wno-unused-function %s %s %s" % (incflags, cflags, extra_flags)
    deps = [src] + glob.glob(VERIF + "/mc/*.h") + glob.glob(VERIF + "/harness/*.h") + \
        glob.glob(REPO + "/src/*.h") + glob.glob(REPO + "/src/include/*.h")
    key = file_hash(deps, flags)
    odir = os.path.join(BUILD, variant, "obj")
    os.makedirs(odir, exist_ok=True)
    base = os.path.basename(src)[:-2] + tag
    obj = os.path.join(odir, "%s.%s.o" % (base, key))
    if not os.path.exists(obj):
        prune(os.path.join(odir, base + ".*.o"), obj)
        tmp = "%s.tmp%d.o" % (obj, os.getpid())
        sh("%s %s -c %s -o %s" % (cc, flags, src, tmp))
        os.rename(tmp, obj)
    return touch(obj)


def link(variant, name, objs, libs="-lpthread"):
    v = VARIANTS[variant]
    bdir = os.path.join(BUILD, variant, "bin")
    os.makedirs(bdir, exist_ok=True)
    key = file_hash(objs, v["ldflags"] + libs)
    exe = os.path.join(bdir, "%s.%s" % (name, key))
    if not os.path.exists(exe):
        prune(os.path.join(bdir, name + ".*"), exe)
        tmp = "%s.tmp%d" % (exe, os.getpid())
        sh("%s %s -o %s %s %s" % (v["cc"], v["ldflags"], tmp, " ".join(objs), libs))
        os.rename(tmp, exe)
    return touch(exe)


def build_harness(name, variant="asan", with_env=True, with_sched=False, extra_flags=""):
    """returns path of the harness binary"""
    objs = []
    lib = build_lib(variant, wrap=with_env)
    # under TSan only the library objects are instrumented: harness, environment and scheduler share model
    # state under the serialising scheduler and must stay invisible to the race detector
    san = variant != "tsan"
    objs.append(cc_obj(variant, os.path.join(VERIF, "harness", name + ".c"), extra_flags, sanitize=san))
    if with_env:
        objs.append(cc_obj(variant, os.path.join(VERIF, "mc", "mc.c"), sanitize=False))
        objs.append(cc_obj(variant, os.path.join(VERIF, "mc", "env.c"), extra_flags, sanitize=san))
        if with_sched:
            objs.append(cc_obj(variant, os.path.join(VERIF, "mc", "sched.c"), sanitize=False))
    return link(variant, name + ("_mt" if with_sched else ""), objs + lib)


if __name__ == "__main__":
    print(build_harness(sys.argv[1], sys.argv[2] if len(sys.argv) > 2 else "asan",
                        with_env=(len(sys.argv) <= 3 or sys.argv[3] != "noenv")))
