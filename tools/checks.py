"""Registry: property id -> runs per tier.  A run is one harness invocation;
all of them are exhaustive enumerations inside the stated bounds."""

def R(harness, args, variant="asan", env=True, sched=False, share=None, environ=None, cflags=""):
    d = dict(harness=harness, args=args, variant=variant, env=env, sched=sched, cflags=cflags)
    if share:
        d["share"] = share
    if environ:
        d["environ"] = environ
    return d

CHECKS = {}

CHECKS["C16"] = dict(
    quick=[
        R("h_avl", "part=shapes height=5", env=False),
        R("h_avl", "part=closure universe=10", env=False),
        R("h_avl", "part=fib height=6", env=False),
    ],
    thorough=[
        R("h_avl", "part=shapes height=5", env=False),
        R("h_avl", "part=closure universe=13", env=False),
        R("h_avl", "part=fib height=7", env=False),
    ],
    rule="every height-balanced shape of height<=5 (and every minimal-node shape to height 6/7) x every insertion gap, "
         "duplicate key, re-insert of a linked node, and deletion victim; plus BFS closure of insert/delete over a key universe "
         "from the empty tree. A case is one (tree, operation) pair; all are distinct by construction.",
    explanation="explicit-state enumeration on the real iv_avl.c (built from the working tree, ASan+UBSan); "
                "full structural walk + traversal comparison with a sorted reference after every operation",
    assumptions=["node payload is an int key; the comparator is a total order",
                 "closure dedup uses exact serialised trees (no hashing abstraction)"],
    deadline=dict(quick=120, thorough=900),
)

CHECKS["C05"] = dict(
    quick=[
        R("h_theap", "part=closure n=9 keys=4 handlers=5", env=False),
        R("h_theap", "part=closure n=15 keys=2", env=False),
        R("h_theap", "part=closure n=13 keys=3", env=False),
        R("h_theap", "part=boundary depth=2", env=False),
    ],
    thorough=[
        R("h_theap", "part=closure n=11 keys=5 handlers=6", env=False, share=0.4),
        R("h_theap", "part=closure n=16 keys=2 handlers=5", env=False),
        R("h_theap", "part=closure n=14 keys=3", env=False, share=0.3),
        R("h_theap", "part=boundary depth=3", env=False),
    ],
    rule="closure: every reachable heap state (array of expiry ranks; timer structs are interchangeable) with <=n timers over "
         "k ranks, x register(rank) / unregister(position) / full drain through iv_main, plus handler programs (i-th handler "
         "unregisters the j-th pending expired timer / registers a fresh one); boundary: real prefill to 126..129 and "
         "16382..16385 timers (4 key patterns) x every op sequence of the stated depth over 9 victim/key classes. "
         "A case is one (state, operation) pair.",
    explanation="explicit-state BFS with the real iv_timer.c as transition function; states are instantiated directly in the "
                "library's radix heap (first leaf) and read back after each real operation; invariants: heap order, back "
                "indices, minimal radix depth, empty slots NULL, key multiset preserved, drain order non-decreasing, "
                "exactly-once firing; ASan+UBSan+LeakSanitizer on every worker",
    assumptions=["expiry values are abstracted to ranks (only comparisons matter to the heap)",
                 "closure dedup uses 64-bit fingerprints of tiny states (collision probability < 1e-7)",
                 "all drained timers carry already-expired expiries so that one iv_main round drains them; "
                 "never-early / oversleep behaviour is C04's"],
    deadline=dict(quick=120, thorough=900),
)

# properties without a check yet (reason shown in MANIFEST.not_applicable)
NOT_CLAIMED = {}
