"""Registry: property id -> runs per tier.  A run is one harness invocation;
all of them are exhaustive enumerations inside the stated bounds."""

def R(harness, args, variant="asan", env=True, sched=False, share=None, environ=None, cflags=""):
    d = dict(harness=harness, args=args, variant=variant, env=env, sched=sched, cflags=cflags)
    if share:
        d["share"] = share
    if environ:
        d["environ"] = environ
    return d

CHECKS = {}
ABN = "sanitizer,crash,hang,lib-fatal,unexpected-exit"

CHECKS["C16"] = dict(
    quick=[
        R("h_avl", "part=shapes height=5", env=False),
        R("h_avl", "part=closure universe=10", env=False),
        R("h_avl", "part=fib height=6", env=False),
    ],
    thorough=[
        R("h_avl", "part=shapes height=5", env=False),
        R("h_avl", "part=closure universe=14", env=False),
        R("h_avl", "part=fib height=7", env=False),
    ],
    rule="every height-balanced shape of height<=5 (and every minimal-node shape to height 6/7) x every insertion gap, "
         "duplicate key, re-insert of a linked node, and deletion victim; plus BFS closure of insert/delete over a key universe "
         "from the empty tree. A case is one (tree, operation) pair; all are distinct by construction.",
    explanation="explicit-state enumeration on the real iv_avl.c (built from the working tree, ASan+UBSan); "
                "full structural walk + traversal comparison with a sorted reference after every operation",
    assumptions=["node payload is an int key; the comparator is a total order",
                 "closure dedup uses exact serialised trees (no hashing abstraction)"],
    deadline=dict(quick=120, thorough=900),
)

CHECKS["C05"] = dict(
    quick=[
        R("h_theap", "part=closure n=9 keys=4 handlers=5", env=False),
        R("h_theap", "part=closure n=15 keys=2", env=False),
        R("h_theap", "part=closure n=13 keys=3", env=False),
        R("h_theap", "part=boundary depth=2", env=False),
        R("h_theap", "part=closure n=9 keys=4 farkey=4", env=False),
        # registering a timer must not change when another fires: also through the loop's repeated-deadline optimisation
        R("h_loop", "bound=2 seeds=16,17,7 nfd=1 ntm=3 ntk=0 nev=0 horizon=14 ops=leave,tmreg,tmunreg rules=timer-early,timer-twice,oversleep,timer-starved,%s" % ABN),
    ],
    thorough=[
        R("h_theap", "part=closure n=11 keys=5 farkey=5", env=False, share=0.2),
        R("h_loop", "bound=3 seeds=16,17,7 nfd=1 ntm=3 ntk=0 nev=0 horizon=14 ops=leave,tmreg,tmunreg rules=timer-early,timer-twice,oversleep,timer-starved,%s" % ABN, share=0.3),
        R("h_theap", "part=closure n=12 keys=5", env=False, share=0.4),
        R("h_theap", "part=closure n=10 keys=4 handlers=6", env=False, share=0.4),
        R("h_theap", "part=closure n=16 keys=2 handlers=5", env=False),
        R("h_theap", "part=closure n=14 keys=3", env=False, share=0.3),
        R("h_theap", "part=boundary depth=3", env=False),
    ],
    rule="closure: every reachable heap state (array of expiry ranks; timer structs are interchangeable) with <=n timers over "
         "k ranks, x register(rank) / unregister(position) / full drain through iv_main, plus handler programs (i-th handler "
         "unregisters the j-th pending expired timer / registers a fresh one); boundary: real prefill to 126..129 and "
         "16382..16385 timers (4 key patterns) x every op sequence of the stated depth over 9 victim/key classes. "
         "A case is one (state, operation) pair.",
    explanation="explicit-state BFS with the real iv_timer.c as transition function; states are instantiated directly in the "
                "library's radix heap (first leaf) and read back after each real operation; invariants: heap order, back "
                "indices, minimal radix depth, empty slots NULL, key multiset preserved, drain order non-decreasing, "
                "exactly-once firing; ASan+UBSan+LeakSanitizer on every worker",
    assumptions=["expiry values are abstracted to ranks (only comparisons matter to the heap)",
                 "closure dedup uses 64-bit fingerprints of tiny states (collision probability < 1e-7)",
                 "all drained timers carry already-expired expiries so that one iv_main round drains them; "
                 "never-early / oversleep behaviour is C04's"],
    deadline=dict(quick=120, thorough=900),
)

# properties without a check yet (reason shown in MANIFEST.not_applicable)
NOT_CLAIMED = {}

# ---------------------------------------------------------------- h_loop profiles
LOOP_ASSUME = [
    "time is virtual: it advances only at a blocking point (to the wait deadline) or by an explicit 'long operation' followed by iv_invalidate_now()",
    "descriptors are AF_UNIX stream socket pairs whose peer the harness drives; kernel semantics of epoll/poll/eventfd are the host's",
    "timerfd is emulated by an eventfd fired by the virtual clock (settime resets the count as the kernel does)",
    "<=3 fds, <=3 timers, <=3 tasks, <=2 events; <=2 actions per callback; loop horizon 10 iterations",
]
UNREG_OPS = "leave,fdunreg,tmunreg,tkunreg,evunreg,rawunreg,sigunreg"
ALL_SEEDS_C01 = "11,2,6,7,8,9,10,12,24,3,22,21,26,28"

CHECKS["C01"] = dict(
    quick=[
        # who-unregisters-whom matrix: every handler may unregister(+free) any registered object, 2 deviations
        R("h_loop", "bound=2 seeds=%s nfd=3 ntm=3 ntk=2 nev=2 nraw=1 nsig=1 ops=%s rules=stale-callback,cookie,oneshot-registered,%s" % (ALL_SEEDS_C01, UNREG_OPS, ABN)),
        # any API action from any callback, 1 deviation
        R("h_loop", "bound=1 seeds=%s,1,5,13,14,15,16,19,20 nfd=3 ntm=3 ntk=2 nev=2 nraw=1 nsig=1 nwk=1 rules=stale-callback,cookie,oneshot-registered,%s" % (ALL_SEEDS_C01, ABN)),
        # all handlers cleared, then unregistered (+freed) before the next poll: nothing may be left queued for the poll method
        R("h_loop", "bound=2 seeds=1,2,22 nfd=2 ntm=0 ntk=0 nev=0 ops=leave,fdseth,fdunreg rules=stale-callback,cookie,oneshot-registered,%s" % ABN),
        R("h_inotify", "bound=1 workers=40"),
        # cross-thread posts: the owner's event handlers unregister+free other events and the owner's descriptor
        R("h_event_mt", "bound=2 transports=0-3 p1=0,3,4 p2=0,3 hacts=1", sched=True),
        # child-wait interests: unregister from the handler / by command while further statuses are queued
        R("h_wait", "bound=1 steps=4", sched=True),
        R("h_wait", "bound=2 steps=2 pops=0,1", sched=True),
    ],
    thorough=[
        R("h_event_mt", "bound=3 transports=0-3 hacts=2", sched=True, share=0.3),
        R("h_wait", "bound=1 steps=4", sched=True, share=0.2),
        R("h_loop", "bound=3 seeds=%s nfd=3 ntm=3 ntk=2 nev=2 nraw=1 nsig=1 ops=%s rules=stale-callback,cookie,oneshot-registered,%s" % (ALL_SEEDS_C01, UNREG_OPS, ABN), share=0.5),
        R("h_loop", "bound=2 seeds=%s nfd=2 ntm=2 ntk=2 nev=1 nraw=1 nsig=1 rules=stale-callback,cookie,oneshot-registered,%s" % (ALL_SEEDS_C01, ABN)),
    ],
    rule="choice sequences (program steps at setup / callback entry, stimuli at blocking points) within the deviation bound, from each seed "
         "state, under each of the 4 poll methods; an execution is non-trivial if a callback ran and a non-default choice was taken; "
         "distinct = distinct observation traces",
    explanation="every object is malloc()ed, carries a (slot, generation) cookie and is poisoned+freed immediately after its unregister call "
                "returns (one-shot timers/tasks: on handler entry); a stale invocation fails the cookie check, a stale access is an ASan "
                "heap-use-after-free",
    assumptions=LOOP_ASSUME,
    deadline=dict(quick=240, thorough=900),
)

FD_OPS = "leave,fdreg,fdtry,fdtrybad,fdunreg,fdseth,feed,drain,fill,unfill,pclose,pshut,tkreg"
FD_SEEDS = "1,2,3,4,5,14,15,19,22,24,26,28,29"
CHECKS["C02"] = dict(
    quick=[
        R("h_loop", "bound=2 seeds=%s nfd=3 ntm=0 ntk=1 nev=0 ops=%s rules=fd-sleep,fd-starved,fd-skipped,%s" % (FD_SEEDS, FD_OPS, ABN)),
        # caller memory with other byte patterns; a struct whose registration failed is initialised again and re-used
        R("h_loop", "bound=2 poisons=1 seeds=0,1,19 nfd=2 ntm=0 ntk=0 nev=0 ops=leave,fdreg,fdtrybad,fdunreg,feed rules=fd-sleep,fd-starved,fd-skipped,%s" % ABN),
        # a struct initialised once is registered, unregistered and registered again without a second IV_FD_INIT
        R("h_loop", "bound=2 fdkeep=1 nofree=1 seeds=1,2,19 nfd=2 ntm=0 ntk=0 nev=0 ops=leave,fdreg,fdunreg,feed rules=fd-sleep,fd-starved,fd-skipped,%s" % ABN),
        # bare POLLERR (write end of a pipe whose reader went away) with an error-only / input-only handler
        R("h_loop", "bound=2 seeds=32,33 nfd=2 ntm=0 ntk=0 nev=0 ops=leave,fdunreg,fdseth,pclose,fill,unfill rules=fd-sleep,fd-starved,fd-skipped,%s" % ABN),
    ],
    thorough=[
        # full alphabet at bound 2, then smaller alphabets sized so that bounds 3 and 4 run to completion
        R("h_loop", "bound=2 seeds=%s nfd=3 ntm=0 ntk=1 nev=0 ops=%s rules=fd-sleep,fd-starved,fd-skipped,%s" % (FD_SEEDS, FD_OPS, ABN)),
        R("h_loop", "bound=2 poisons=1 seeds=0,1,4,19 nfd=2 ntm=0 ntk=1 nev=0 ops=leave,fdreg,fdtry,fdtrybad,fdunreg,fdseth,feed rules=fd-sleep,fd-starved,fd-skipped,%s" % ABN),
        R("h_loop", "bound=3 seeds=1,3,4,15,28,29 nfd=2 ntm=0 ntk=0 nev=0 ops=leave,fdreg,fdunreg,fdseth,feed,pclose,drain rules=fd-sleep,fd-starved,fd-skipped,%s" % ABN, share=0.7),
        R("h_loop", "bound=4 seeds=1,5 nfd=1 ntm=0 ntk=0 nev=0 ops=leave,fdseth,feed,drain,fdunreg rules=fd-sleep,fd-starved,fd-skipped,%s" % ABN),
    ],
    rule=CHECKS["C01"]["rule"],
    explanation="at every entry to the kernel wait the harness takes poll(2) ground truth for every registered descriptor: if a band has a "
                "handler and its condition holds, the loop must not block (fd-sleep) and the handler must be invoked within 3 iterations "
                "unless a callback changed that descriptor (fd-starved)",
    assumptions=LOOP_ASSUME,
    deadline=dict(quick=150, thorough=900),
)
CHECKS["C03"] = dict(
    quick=[
        R("h_loop", "bound=2 seeds=%s nfd=3 ntm=0 ntk=1 nev=0 ops=%s abn_ignore=1 nofree=1 rules=fd-spurious,fd-wrong-handler,fd-twice,fd-cleared-handler,stale-callback,cookie" % (FD_SEEDS, FD_OPS)),
        # a cross-thread event handler recycles the owner's descriptor object (same struct, fresh idle descriptor) while the
        # old descriptor's readiness may sit in the same poll batch
        R("h_event_mt", "bound=2 transports=0-3 p1=3,4 p2=0,3 hacts=1 abn_ignore=1", sched=True),
        # the application replaces ->cookie from inside a handler (allowed at any time): later bands of the same round get the new one
        R("h_loop", "bound=2 seeds=3,22,29 nfd=2 ntm=0 ntk=0 nev=0 ops=leave,fdcookie,fdseth abn_ignore=1 nofree=1 rules=fd-spurious,fd-wrong-handler,fd-twice,fd-cleared-handler,stale-callback,cookie"),
    ],
    thorough=[
        R("h_loop", "bound=2 seeds=%s nfd=3 ntm=0 ntk=1 nev=0 ops=%s abn_ignore=1 nofree=1 rules=fd-spurious,fd-wrong-handler,fd-twice,fd-cleared-handler,stale-callback,cookie" % (FD_SEEDS, FD_OPS)),
        R("h_loop", "bound=3 seeds=1,3,4,15,28,29 nfd=2 ntm=0 ntk=0 nev=0 ops=leave,fdreg,fdunreg,fdseth,feed,pclose,drain abn_ignore=1 nofree=1 rules=fd-spurious,fd-wrong-handler,fd-twice,fd-cleared-handler,stale-callback,cookie", share=0.7),
        R("h_loop", "bound=4 seeds=1,5 nfd=1 ntm=0 ntk=0 nev=0 ops=leave,fdseth,feed,drain,fdunreg abn_ignore=1 nofree=1 rules=fd-spurious,fd-wrong-handler,fd-twice,fd-cleared-handler,stale-callback,cookie"),
    ],
    rule=CHECKS["C01"]["rule"],
    explanation="the wait wrapper records exactly which events the kernel returned; on handler entry the band must be allowed by them, the "
                "descriptor registered, the handler variant the one currently installed, the cookie the live one, and the band not yet "
                "served in this iteration",
    assumptions=LOOP_ASSUME + ["abnormal terminations are not counted against this pure safety property (they make the run non-exhaustive)"],
    deadline=dict(quick=240, thorough=900),
)
TM_OPS = "leave,tmreg,tmunreg,feed,drain,tkreg,timepass,fdunreg"
TM_SEEDS = "0,7,8,13,16,17,18,6,30"
CHECKS["C04"] = dict(
    quick=[
        R("h_loop", "bound=2 seeds=%s nfd=1 ntm=3 ntk=1 nev=0 horizon=14 ops=%s rules=timer-early,timer-twice,oversleep,stale-callback,oneshot-registered,%s" % (TM_SEEDS, TM_OPS, ABN)),
        # a population large enough for interior heap positions: 7 timers, any two unregistered / re-armed
        # interrupted waits (immediately / after half of the sleep) must not make the loop oversleep
        R("h_loop", "bound=2 seeds=7,13,8 nfd=1 ntm=3 ntk=0 nev=0 eintr_wait=1 ops=leave,tmreg,tmunreg rules=timer-early,timer-twice,oversleep,%s" % ABN),
        R("h_loop", "bound=2 seeds=25 nfd=0 ntm=7 ntk=0 nev=0 horizon=12 ops=leave,tmunreg,tmreg rules=timer-early,timer-twice,oversleep,stale-callback,oneshot-registered,%s" % ABN),
        # the kernel-timer optimisation without a timerfd (timerfd_create -> ENOSYS when it first engages)
        R("h_loop", "bound=1 seeds=16,17,30 nfd=1 ntm=3 ntk=1 nev=0 horizon=14 absent=2 ops=leave,tmreg,tmunreg,feed rules=timer-early,timer-twice,oversleep,stale-callback,oneshot-registered,%s" % ABN),
        # the only timer is 30 days away: more milliseconds than fit an int (poll / epoll_wait take int milliseconds)
        R("h_loop", "bound=1 seeds=38 nfd=1 ntm=1 ntk=0 nev=0 ops=leave,feed rules=timer-early,timer-twice,oversleep,%s" % ABN),
        R("h_loop", "bound=1 seeds=38 nfd=1 ntm=1 ntk=0 nev=0 absent=1 ops=leave,feed rules=timer-early,timer-twice,oversleep,%s" % ABN),
        # the optimisation engaged, disarmed by a task burst (zero-timeout polls), and needed again for the same deadline
        R("h_loop", "bound=1 seeds=36,16,18 nfd=1 ntm=1 ntk=1 nev=0 horizon=20 ops=leave,tkreg,tkunreg,feed rules=timer-early,timer-twice,oversleep,%s" % ABN),
    ],
    thorough=[
        R("h_loop", "bound=2 seeds=%s nfd=1 ntm=3 ntk=1 nev=0 horizon=14 ops=%s rules=timer-early,timer-twice,oversleep,stale-callback,oneshot-registered,%s" % (TM_SEEDS, TM_OPS, ABN)),
        R("h_loop", "bound=2 seeds=7,13,8 nfd=1 ntm=3 ntk=0 nev=0 eintr_wait=1 ops=leave,tmreg,tmunreg rules=timer-early,timer-twice,oversleep,%s" % ABN),
        R("h_loop", "bound=2 seeds=25 nfd=0 ntm=7 ntk=0 nev=0 horizon=12 ops=leave,tmunreg,tmreg rules=timer-early,timer-twice,oversleep,stale-callback,oneshot-registered,%s" % ABN),
        R("h_loop", "bound=3 seeds=7,8,16,17 nfd=1 ntm=2 ntk=0 nev=0 horizon=14 ops=leave,tmreg,tmunreg,feed rules=timer-early,timer-twice,oversleep,stale-callback,oneshot-registered,%s" % ABN, share=0.8),
        R("h_loop", "bound=4 seeds=0,13 nfd=1 ntm=1 ntk=0 nev=0 horizon=12 ops=leave,tmreg,tmunreg,feed rules=timer-early,timer-twice,oversleep,%s" % ABN),
    ],
    rule=CHECKS["C01"]["rule"],
    explanation="virtual clock; on handler entry the clock must be at or past the expiry and the registration must not have fired before; at "
                "every point where the loop would block, the sleep (min of the requested timeout and the armed timer descriptor) must end "
                "no later than the earliest registered expiry rounded up to the next millisecond; 'chatty' seeds present the same deadline "
                "on >=5 consecutive polls so that the kernel-timer optimisation engages, fires and is cancelled",
    assumptions=LOOP_ASSUME + ["expiry alphabet: zero, now-1s, now, now+1ns, now+10ms, now+100s"],
    deadline=dict(quick=240, thorough=900),
)
TK_OPS = "leave,tkreg,tkunreg,feed,tmreg,evpost,fdunreg"
CHECKS["C06"] = dict(
    quick=[
        R("h_loop", "bound=3 seeds=9,6,10,0,1,21 nfd=1 ntm=1 ntk=3 nev=1 nwk=1 ops=%s rules=sleep-with-task,task-same-round,oneshot-registered,stale-callback,fd-starved,work-,%s" % (TK_OPS, ABN)),
        # same programs, but a task slot keeps its struct: re-registration re-uses the memory that already ran (no IV_TASK_INIT)
        R("h_loop", "bound=3 tkkeep=1 seeds=9,6,10 nfd=1 ntm=0 ntk=3 nev=0 ops=leave,tkreg,tkunreg,feed rules=sleep-with-task,task-same-round,oneshot-registered,stale-callback,fd-starved,%s" % ABN),
        # wall-clock time passes (1 ms per loop iteration) while task chains keep the loop from sleeping: timers and descriptors must still be served
        R("h_loop", "bound=2 drift_ns=1000000 autotask=30 seeds=27,6,9 nfd=1 ntm=1 ntk=2 nev=0 horizon=40 ops=leave,tkreg,fdreg,feed,tmreg rules=timer-starved,fd-starved,task-same-round,%s" % ABN),
        # a loop that has already gone round 65535 times (16-bit boundary of the per-loop round counter)
        R("h_loop", "bound=2 epoch0=65535 seeds=9,6 nfd=1 ntm=0 ntk=2 nev=0 ops=leave,tkreg,tkunreg rules=sleep-with-task,task-same-round,oneshot-registered,stale-callback,%s" % ABN),
        # a task burst in the middle of a long run of descriptor wake-ups with one pending timer (kernel-timer optimisation engaged,
        # dropped for the zero-timeout polls, engaged again): the timer must still be served
        R("h_loop", "bound=1 seeds=36,16,18 nfd=1 ntm=1 ntk=1 nev=0 horizon=20 ops=leave,tkreg,tkunreg,feed rules=oversleep,timer-starved,sleep-with-task,task-same-round,%s" % ABN),
    ],
    thorough=[
        R("h_loop", "bound=3 seeds=9,6,10,0,1,21 nfd=1 ntm=1 ntk=3 nev=1 nwk=1 ops=%s rules=sleep-with-task,task-same-round,oneshot-registered,stale-callback,fd-starved,work-,%s" % (TK_OPS, ABN)),
        R("h_loop", "bound=3 tkkeep=1 seeds=9,6,10 nfd=1 ntm=0 ntk=3 nev=0 ops=leave,tkreg,tkunreg,feed rules=sleep-with-task,task-same-round,oneshot-registered,stale-callback,fd-starved,%s" % ABN),
        R("h_loop", "bound=3 drift_ns=1000000 autotask=30 seeds=27,6,9 nfd=1 ntm=1 ntk=2 nev=0 horizon=40 ops=leave,tkreg,fdreg,feed,tmreg rules=timer-starved,fd-starved,task-same-round,%s" % ABN, share=0.4),
        R("h_loop", "bound=5 seeds=9,0 nfd=0 ntm=0 ntk=3 nev=0 ops=leave,tkreg,tkunreg rules=sleep-with-task,task-same-round,oneshot-registered,stale-callback,%s" % ABN, share=0.6),
        R("h_loop", "bound=5 tkkeep=1 seeds=9,0 nfd=0 ntm=0 ntk=2 nev=0 ops=leave,tkreg,tkunreg rules=sleep-with-task,task-same-round,oneshot-registered,stale-callback,%s" % ABN),
    ],
    rule=CHECKS["C01"]["rule"],
    explanation="each task registration may run once (generation cookie), is unregistered on entry, must have run before the loop blocks, and "
                "no task slot may run twice without a kernel poll in between; a ready descriptor must still be served while tasks "
                "re-register (C02's service window)",
    assumptions=LOOP_ASSUME,
    deadline=dict(quick=150, thorough=900),
)
C07_RULES = "main-should-return,main-return-early,spin,nested-callback,callback-outside-main,wait-outside-main,failed-register-side-effect,try-should-fail,try-failed,object-count,event-lost,raw-lost,sig-lost,work-lost,sleep-with-task,fd-sleep,oversleep," + ABN
CHECKS["C07"] = dict(
    quick=[
        R("h_loop", "bound=2 seeds=0,1,6,10,11,12,20,21,23 nfd=2 ntm=1 ntk=1 nev=2 nraw=1 nsig=1 nwk=1 emfile=1 rules=%s" % C07_RULES),
        R("h_loop", "bound=2 seeds=16,17,18 nfd=1 ntm=3 ntk=1 nev=0 horizon=14 ops=leave,tmreg,tmunreg,tkreg,feed rules=%s" % C07_RULES),
        R("h_loop", "bound=2 seeds=25 nfd=0 ntm=7 ntk=0 nev=0 horizon=12 ops=leave,tmunreg,tmreg rules=%s" % C07_RULES),
        # interrupted waits with timers pending
        R("h_loop", "bound=2 seeds=7,13,8 nfd=1 ntm=3 ntk=0 nev=0 eintr_wait=1 ops=leave,tmreg,tmunreg rules=%s" % C07_RULES),
    ],
    thorough=[
        R("h_loop", "bound=2 seeds=0,1,6,10,11,12,20,21,23 nfd=2 ntm=1 ntk=1 nev=2 nraw=1 nsig=1 nwk=1 emfile=1 rules=%s" % C07_RULES),
        R("h_loop", "bound=2 seeds=16,17,18 nfd=1 ntm=3 ntk=1 nev=0 horizon=14 ops=leave,tmreg,tmunreg,tkreg,feed rules=%s" % C07_RULES),
        R("h_loop", "bound=3 seeds=0,10,12,21 nfd=1 ntm=1 ntk=1 nev=1 nraw=1 nsig=1 nwk=1 emfile=1 ops=leave,quit,fdreg,fdunreg,tmreg,tkreg,evreg,evunreg,evpost,evregfail,rawreg,rawunreg,sigreg,sigunreg,raise,wksubmit,fdtrybad rules=%s" % C07_RULES, share=0.8),
        R("h_loop", "bound=4 seeds=0 nfd=1 ntm=0 ntk=1 nev=1 emfile=1 ops=leave,quit,fdreg,fdunreg,tkreg,evreg,evunreg,evpost,evregfail,fdtrybad rules=%s" % C07_RULES),
    ],
    rule=CHECKS["C01"]["rule"],
    explanation="reference count of user-visible registered objects: at every kernel wait the set must be non-empty and iv_quit not pending; "
                "when iv_main returns one of the two must hold; failed registrations (closed fd, regular file under epoll, EMFILE while "
                "creating the wake-up descriptor) must leave the loop unchanged; callbacks only inside iv_main and never nested; a loop that "
                "would block must have nothing due; >8 wake-ups without callback/time/EINTR is a spin; watchdog for hangs",
    assumptions=LOOP_ASSUME,
    deadline=dict(quick=300, thorough=900),
)

CHECKS["C17"] = dict(
    quick=[
        R("h_pump", "mode=rw bound=6"),
        R("h_pump", "mode=splice bound=2"),
    ],
    thorough=[
        R("h_pump", "mode=rw bound=9", share=0.5),
        R("h_pump", "mode=splice bound=3"),
    ],
    rule="rw mode: input length in {0,1,4095,4096,4097,5000,8193} x RELAY_EOF on/off; every read()/write() result of the pump is a "
         "choice among {everything, 1 byte, half, EAGAIN, EINTR, I/O error, EOF}; iv_fd_pump_destroy at any step; a second pump in the "
         "same thread afterwards; quiescent states (source offset, sink offset, pump fields) are expanded once per remaining budget. "
         "splice mode: real pipes (4096 B) / stream socket pairs as input and output (4 combinations), first feed 1/4096/70000 bytes, "
         "programs of feed/drain/close/pump/destroy steps. Non-trivial: at least one pump call and one non-default choice; distinct by "
         "observation trace.",
    explanation="byte-stream reference model (byte i = i mod 251): the sink must see exactly the source bytes in order; shutdown only with "
                "RELAY_EOF after the last byte; return value 0/1/-1 and requested bands are compared with the reference after every call",
    assumptions=["rw mode replaces only the pump's two descriptors by a simulated source and sink; splice mode uses the host kernel's "
                 "splice/pipe/socket semantics", "read-write buffer size 4096 as in the source"],
    deadline=dict(quick=150, thorough=900),
)

INO_ASSUME = ["real inotify of the host kernel on a tmpfs scratch directory; no filesystem object is watched by two instances "
              "(the kernel's cross-group notification order is address dependent)",
              "bursts of <=2 operations before the first poll plus an optional later one; <=4 watches, <=2 instances"]
CHECKS["C20"] = dict(
    quick=[R("h_inotify", "bound=1 workers=40"),
           R("h_inotify", "bound=2 presets=3 workers=40"),
           # two threads, each with its own instance and watched directory, dispatching concurrently
           R("h_loops_mt", "bound=2 ino=1 sig=0", sched=True),
           R("h_loops_mt", "bound=1 ino=1 sig=0 scan_stderr=1", variant="tsan", sched=True)],
    thorough=[R("h_inotify", "bound=2 workers=40", share=0.5), R("h_inotify", "bound=3 workers=40")],
    rule="5 watch-set presets (directory / file / second directory / one-shot / two instances) x 7x7 bursts of filesystem operations "
         "(create, write, rename within, rename across, unlink, rmdir of a watched directory) x optional second round, all crossed "
         "(cost-free configuration choices); at every delivered event the handler's action is a choice among {nothing, unregister this "
         "watch, another watch, an instance (freed at once), register a new watch}; bound = number of non-default handler actions",
    explanation="the read() wrapper keeps the raw buffer the kernel returned; the harness parses it independently (stride from len) and each "
                "delivery must be the next record whose watch is still registered in the model, with equal wd/mask/cookie/name; kernel-"
                "removed and one-shot watches must be out of the instance's watch set when their handler runs; records for live watches "
                "must not be skipped; freed watches/instances are poisoned (ASan)",
    assumptions=INO_ASSUME,
    deadline=dict(quick=300, thorough=900),
)

MT_ASSUME = [
    "threads are real pthreads serialised by a cooperative scheduler; scheduling points: mutex/spin lock, read/write on eventfds and pipes, "
    "epoll_ctl on another thread's epoll set, kernel waits, thread create/join/finish; interleaving is explored at that granularity under "
    "sequential consistency (C14's race detection justifies the granularity)",
    "virtual time advances only when no thread is enabled (discrete-event rule)",
    "bound = preemptions (switching away from a thread that could continue) + non-default program actions",
]
CHECKS["C08"] = dict(
    quick=[R("h_event_mt", "bound=2 transports=0-3 hacts=1 p1=0,1,3,4,5 p2=0,1,3", sched=True),
           # owner-side posts, iv_quit from a handler, iv_main entered again
           R("h_loop", "bound=2 seeds=31,10,20 nfd=1 ntm=0 ntk=1 nev=2 ops=leave,evpost,evreg,evunreg,quit,tkreg rules=event-,main-,stale-callback,%s" % ABN),
           # owner-side post chains while the loop relies on an armed kernel timer for a far deadline
           R("h_loop", "bound=2 seeds=37 nfd=1 ntm=1 ntk=1 nev=2 horizon=14 ops=leave,evpost rules=event-,main-,oversleep,stale-callback,%s" % ABN),
           # two loops; one thread's wake-up descriptor creation hits a descriptor shortage while the other thread's objects are live
           R("h_loops_mt", "bound=2 cycles=1 emfile1=1", sched=True)],
    thorough=[R("h_event_mt", "bound=2 transports=0-4 hacts=2", sched=True, share=0.3),
              R("h_event_mt", "bound=3 transports=0-3 p1=0,1,3,4 p2=0,1,3 hacts=1", sched=True, share=0.6),
              R("h_event_mt", "bound=4 transports=0,2 p1=0,3 p2=0,1 hacts=0", sched=True, share=0.5),
              R("h_event_mt", "bound=6 transports=0,2 p1=0,1 p2=0 hacts=0", sched=True)],
    rule="4-5 wake-up transports (epoll one-shot kick under epoll-timerfd and epoll; raw event over eventfd and over a pipe under ppoll/poll) x "
         "6 programs for poster 1 x 4 for poster 2 (posts to E0/E1 in sequences of 1-2, feeding the owner's descriptor before/after a post) "
         "x owner handler actions (post other, post self, register+post E2, unregister E2) x every schedule within the bound",
    explanation="obligation oracle: every post (start recorded) must be followed by a handler start of that event in the owner thread, checked "
                "when the owner blocks for good (lost wake-ups surface exactly there) and at exit; handler count never exceeds post count; "
                "posters end with a 'done' post on which the owner joins them before anything is unregistered",
    assumptions=MT_ASSUME,
    deadline=dict(quick=300, thorough=900),
)

C14_ASSUME = MT_ASSUME + [
    "ThreadSanitizer (clang 14) is the per-schedule oracle: a vector-clock happens-before detector over the library objects only (harness, "
    "environment and scheduler are not instrumented; hand-offs use raw futexes and create no happens-before edges)",
    "suppressed by name: inited, epoll_support, epoll_pwait2_support, eventfd_in_use, pipe2_support, splice_available, iv_event_use_event_raw, "
    "clock_source, method (the one-way flags the property allows)",
    "sequentially consistent data-race freedom at C level; weak hardware orderings are not explored",
]
CHECKS["C14"] = dict(
    quick=[R("h_event_mt", "bound=1 transports=0-3 hacts=1 scan_stderr=1", variant="tsan", sched=True),
           R("h_raw", "bound=2 scan_stderr=1", variant="tsan", sched=True),
           R("h_work", "bound=1 progs=0,1,3,4,5,8 puts=0,2,3 scan_stderr=1", variant="tsan", sched=True),
           R("h_thread", "bound=2 scan_stderr=1", variant="tsan", sched=True),
           R("h_loops_mt", "bound=2 scan_stderr=1", variant="tsan", sched=True),
           R("h_loops_mt", "bound=1 ino=1 sig=0 scan_stderr=1", variant="tsan", sched=True),
           R("h_wait", "bound=1 steps=1 scan_stderr=1", variant="tsan", sched=True),
           R("h_signal", "bound=1 steps=2 scan_stderr=1", variant="tsan", sched=True)],
    thorough=[R("h_event_mt", "bound=2 transports=0-3 hacts=1 p1=0,1,3,4 p2=0,1,3 scan_stderr=1", variant="tsan", sched=True, share=0.25),
              R("h_raw", "bound=4 scan_stderr=1", variant="tsan", sched=True, share=0.1),
              R("h_work", "bound=1 methods=0,2 scan_stderr=1", variant="tsan", sched=True, share=0.15),
              R("h_work", "bound=2 methods=0 maxthreads=2 progs=1,4,8 puts=0,3 scan_stderr=1", variant="tsan", sched=True, share=0.4),
              R("h_thread", "bound=4 scan_stderr=1", variant="tsan", sched=True, share=0.2),
              R("h_loops_mt", "bound=3 cycles=2 scan_stderr=1", variant="tsan", sched=True, share=0.4),
              R("h_wait", "bound=1 steps=3 scan_stderr=1", variant="tsan", sched=True, share=0.5),
              R("h_signal", "bound=2 steps=2 scan_stderr=1", variant="tsan", sched=True)],
    rule="the multi-threaded scenario programs of C08-C13 under every schedule within the preemption bound, library built with "
         "-fsanitize=thread; an execution is one schedule; distinct = distinct observation traces",
    explanation="exhaustive schedule enumeration supplies the schedules in which conflicting accesses actually execute; on each one the "
                "happens-before race detector decides, so one explored schedule covers its whole happens-before equivalence class",
    assumptions=C14_ASSUME,
    deadline=dict(quick=450, thorough=1500),
)

CHECKS["C09"] = dict(
    quick=[R("h_raw", "bound=3", sched=True), R("h_loops_mt", "bound=2 cycles=2", sched=True),
           # raw objects next to other ready descriptors in one poll batch, iv_quit from a handler and re-entry of iv_main
           R("h_loop", "bound=2 reenter=1 seeds=34,12,35 nfd=2 ntm=0 ntk=0 nev=0 nraw=2 nsig=1 ops=leave,quit,rawpost,rawunreg,fdunreg rules=raw-,main-,stale-callback,%s" % ABN),
           # a task that keeps re-registering itself (3 times) while posts are waiting
           R("h_loop", "bound=2 autotask=3 seeds=34,12 nfd=1 ntm=0 ntk=1 nev=0 nraw=2 nsig=1 ops=leave,tkreg,rawpost rules=raw-,main-,stale-callback,%s" % ABN)],
    thorough=[R("h_raw", "bound=9 oposts=2", sched=True, share=0.6), R("h_loops_mt", "bound=4 cycles=3", sched=True)],
    rule="3 backings (eventfd2 / old eventfd / pipe shrunk to 4096 B) x 4 poll methods x 10 poster programs (1 post, 2 posts, burst of 5000 "
         "in one step, post from a signal handler running in the owner thread, post from a forked child, and pairs of these) x owner posting "
         "from a timer and from inside the handler x every schedule within the bound",
    explanation="obligation oracle at quiescence and exit: a handler start in the registering thread after every post's start; the descriptor "
                "written by a post must be O_NONBLOCK at every post (so a post can never block) and every post call returns; same verdicts "
                "demanded under all three backings",
    assumptions=MT_ASSUME + ["the forked child's post and its reaping are one atomic scheduler step; a burst is one atomic step"],
    deadline=dict(quick=150, thorough=900),
)

WORK_RULE = ("2 poll methods (epoll-timerfd: one-shot kick; ppoll: raw-event kick) x max_threads 1-2 x 9 submission programs (bursts of 1-3, "
             "submit from a completion, continuation from a work function, second submission at virtual t=10 s colliding with the idle "
             "timeout, second submission at t=25 s after the workers died, continuation plus owner submission) x 5 release points "
             "(iv_work_pool_put before any submit, after the setup submits, from the first completion, from a timer at t=10 s, at the end; "
             "the pool struct is freed at once) x every schedule within the preemption bound")
CHECKS["C12"] = dict(
    quick=[R("h_work", "bound=1", sched=True),
           R("h_work", "bound=2 methods=0 maxthreads=2 progs=1,4,5,7,8 puts=0,3", sched=True),
           # NULL pool: work and completion run once, in the submitting thread, from a task
           R("h_loop", "bound=3 seeds=21,0,1 nfd=1 ntm=1 ntk=1 nev=0 nwk=2 ops=leave,wksubmit,tkreg,quit rules=work-,main-,%s" % ABN),
           # pthread_create fails once at any point
           R("h_work", "bound=1 create_faults=1 methods=0 maxthreads=1,2", sched=True)],
    thorough=[R("h_work", "bound=2", sched=True),
              R("h_work", "bound=3 methods=0 maxthreads=2 progs=1,5,7 puts=0", sched=True)],
    rule=WORK_RULE,
    explanation="per item: work function exactly once in a thread other than the owner, inside that thread's start/stop bracket, never more "
                "than max_threads running at once; completion exactly once in the owner after the work function returned; when all "
                "threads are blocked for good every submitted item must have completed (a lost kick shows up exactly there)",
    assumptions=MT_ASSUME,
    deadline=dict(quick=200, thorough=1200),
)
CHECKS["C13"] = dict(
    quick=[R("h_work", "bound=1", sched=True),
           R("h_work", "bound=2 methods=2 maxthreads=1,2 progs=1,2,5 puts=1-4", sched=True),
           R("h_thread", "bound=3", sched=True),
           # thread creation failing transiently (EAGAIN) while another worker exists
           R("h_work", "bound=1 create_faults=1 methods=0 maxthreads=2", sched=True)],
    thorough=[R("h_work", "bound=2", sched=True, share=0.6), R("h_thread", "bound=8", sched=True, share=0.5),
              R("h_work", "bound=2 create_faults=1 methods=0,2 maxthreads=2 progs=1,2,7,8 puts=0,3", sched=True)],
    rule=WORK_RULE,
    explanation="after the release: items already submitted complete, every worker calls thread_stop once after thread_start, every created "
                "thread finishes and is joined by the library, iv_main returns only then and does return; the pool struct is poisoned and "
                "freed right after iv_work_pool_put (ASan); allocation / descriptor ledger balanced after iv_deinit",
    assumptions=MT_ASSUME + ["continuations submitted concurrently with or after the release are the application's race and are not generated"],
    deadline=dict(quick=200, thorough=1200),
)

CHECKS["C10"] = dict(
    quick=[R("h_signal", "bound=2 steps=3 hacts=1", sched=True)],
    thorough=[R("h_signal", "bound=2 steps=4 hacts=2", sched=True, share=0.25),
              R("h_signal", "bound=3 steps=3 hacts=1 cfgs=0-6", sched=True, share=0.4),
              R("h_signal", "bound=3 steps=2 hacts=1 cfgs=7-13", sched=True, share=0.5),
              R("h_signal", "bound=4 steps=2 hacts=1 cfgs=1,2,5", sched=True, share=0.6),
              R("h_signal", "bound=2 steps=2 hacts=1 methods=1 cfgs=0-9", sched=True)],
    rule="14 interest configurations (1-3 interests for one signal, plus one USR1 + three USR2 interests in all 24 registration orders: shared / exclusive / this-thread / this-thread+exclusive, spread over two "
         "loop threads, optionally one of them registered later) x driver programs of up to 3-4 steps (deliver to loop 0 / loop 1 / a thread "
         "without a loop, register, unregister, a forked child raising the signal) x handler actions (signal arrives again during the handler, "
         "unregister self, unregister another interest of the same loop) x every schedule within the bound",
    explanation="sequential reference model of the documented fan-out (per-thread set first if the receiving thread has an interest, exclusive "
                "interests first and exclusively, hand-off of a noted delivery when an exclusive interest is unregistered - within its set); "
                "obligations checked when all threads are idle; handler count bounded by deliveries noted; default disposition restored after "
                "the last unregister; a forked child's raise leaves the parent untouched",
    assumptions=MT_ASSUME + ["register, unregister and the signal handler run as atomic scheduler steps (signals are blocked inside them anyway); "
                             "their order relative to each other and to the loops' processing is what is enumerated; overlapping at instruction "
                             "level is C14's", "a signal is delivered by the receiving thread raising it on itself at its next scheduling point",
                             "hand-off across sets (per-thread vs process-wide) is not demanded (DESIGN.md scoping decision)"],
    deadline=dict(quick=150, thorough=900),
)

WAIT_ASSUME = MT_ASSUME + ["fork/wait4/kill of the library are served from a simulated process table (state-change queue in order, WNOHANG semantics, "
                           "ECHILD when no child is left); the child side of register_spawn is not executed here (C19 does that)",
                           "SIGCHLD is raised by the receiving thread on itself; the receiving thread is a program choice"]
CHECKS["C11"] = dict(
    quick=[R("h_wait", "bound=1 steps=6", sched=True), R("h_wait", "bound=2 steps=1", sched=True),
           # two interests in one loop: a handler unregisters the other interest while its own further statuses are queued
           R("h_wait", "bound=2 steps=2 pops=5", sched=True),
           # the interest struct of a dead, reported child is used again to spawn the next child; kill helper on the new child
           R("h_wait", "bound=2 steps=3 pops=0", sched=True)],
    thorough=[R("h_wait", "bound=2 steps=6", sched=True, share=0.7),
              R("h_wait", "bound=3 steps=2 pops=1,2,6", sched=True, share=0.7),
              R("h_wait", "bound=2 steps=3 method=2", sched=True)],
    rule="7 child populations (spawned through the library by loop 0 / loop 1, plain children without interest, interest registered by pid) x "
         "first child exiting before fork() returns with its SIGCHLD going to loop 0 / loop 1 / a thread without a loop x driver programs of up "
         "to 6 steps (stop, continue, exit, killed - with or without a SIGCHLD, SIGCHLD to any of the three threads, unregister, kill helper) x "
         "handler action (unregister from the handler) x every schedule within the bound",
    explanation="per interest the delivered statuses must equal the child's state changes in order, terminating status once and nothing after, in "
                "the registering thread; at idle every change is delivered (or its interest unregistered) and - while any interest exists - "
                "every child reaped; the kill helper must never reach a pid whose termination was reaped; queued status records freed",
    assumptions=WAIT_ASSUME,
    deadline=dict(quick=240, thorough=900),
)

CHECKS["C19"] = dict(
    quick=[R("h_popen", "bound=0"),
           # the child-wait layer under iv_popen with two loop threads: spawn, reap in either thread, kill helper
           R("h_wait", "bound=2 steps=1 pops=2,3", sched=True)],
    thorough=[R("h_popen", "bound=0"), R("h_wait", "bound=2 steps=2", sched=True)],
    rule="complete cross product: 4 poll methods x request type r/w x 16 child scripts (exits before the parent continues, dies on the 1st / "
         "2nd / 3rd / 5th termination request, ignores them (dies on the unconditional kill), exits spontaneously at blocking point "
         "0/1/2/3/6/7, i.e. between two signals, or at the very instant sleep 0/1/2/6 ends, so that SIGCHLD and the due timer are handled in one round) x with / without an unrelated child that ends in the same SIGCHLD x 5 close timings (right after submit, from a timer now / at 1 s / at 7 s, never closed); "
         "virtual time runs across all 5 s ticks; every case is distinct and non-trivial",
    explanation="the library's child-side code runs in a real helper whose execvp is replaced by an inspection of descriptors 0/1/2 (pipe inode "
                "and direction vs the descriptor handed to the caller, null device for the others, no stray pipe ends, token round trip); the "
                "signal log of the simulated process table must be TERM x<=5 then KILL at exact 5 s spacing from the close, with nothing "
                "after the termination was reaped; at the end the child is reaped, iv_main has returned, ledger balanced",
    assumptions=["fork/wait4/kill served from a simulated process table; SIGCHLD raised synchronously at the next blocking point after a child "
                 "ended", "virtual clock", "h_popen has no schedule dimension (one thread); the spawn / reap / kill-helper layer it rests on (iv_wait.c) is run "
                 "with two loop threads in h_wait (same runs as C11, judged here by wait-lost and kill-after-reap)"],
    deadline=dict(quick=120, thorough=600),
)

ALLRULES = "all"
C15_OPS = "leave,feed,tmreg,evpost,fdseth,tkreg"
CHECKS["C15"] = dict(
    quick=[
        # (a) every exclusion set / spelling selects the first method not excluded, and the loop works under it
        R("h_loop", "bound=1 exclsets=1 seeds=11,6,12,14,29 nraw=1 nsig=1 nwk=1 ops=leave,feed,pclose,fdseth,tmreg"),
        # (b) interrupted waits (at once / after part of the sleep), interrupted epoll_ctl / raw-event I/O, optional syscalls starting to fail at the k-th call
        R("h_loop", "bound=2 seeds=11,6,16,17,10,12 eintr_wait=1 eintr_io=1 sc_fault=1 nraw=1 nsig=1 ops=%s" % C15_OPS),
        # (c) each optional facility absent from the first call
        R("h_loop", "bound=1 seeds=11,6,16,10,12 nraw=1 nsig=1 absent=0"),
        R("h_loop", "bound=1 seeds=11,6,16,10,12 nraw=1 nsig=1 absent=1"),
        R("h_loop", "bound=1 seeds=11,6,16,10,12 nraw=1 nsig=1 absent=1 pwait2_eperm=1"),
        R("h_loop", "bound=1 seeds=11,6,16,17,10,12 nraw=1 nsig=1 absent=2"),
        R("h_loop", "bound=1 seeds=11,6,16,10,12 nraw=1 nsig=1 absent=3"),
        R("h_loop", "bound=1 seeds=11,6,16,10,12 nraw=1 nsig=1 absent=4"),
        R("h_loop", "bound=1 seeds=11,6,16,10,12 nraw=1 nsig=1 absent=4,5"),
        R("h_event_mt", "bound=1 transports=0-3 hacts=0 eintr=1 p1=0,1,3 p2=0,1", sched=True),
        R("h_raw", "bound=2 eintr=1 progs=0,2,3", sched=True),
        R("h_pump", "mode=rw bound=3"),
        R("h_pump", "mode=splice bound=1 no_pipe2=1"),
        # pipe2() goes missing in mid-run, at any of the 18-26 calls made by pumps that need a fresh pipe
        R("h_pump", "mode=many bound=1 sc_fault=1"),
        # descriptors unregistered (and left open) and registered again, band changes afterwards: same behaviour under all four methods
        R("h_loop", "bound=2 seeds=2,15,24 nfd=3 ntm=0 ntk=0 nev=0 ops=leave,fdunreg,fdreg,fdseth,feed"),
        R("h_loop", "bound=2 nofree=1 seeds=2,15 nfd=2 ntm=0 ntk=0 nev=0 ops=leave,fdunreg,fdreg,feed"),
    ],
    thorough=[
        R("h_loop", "bound=1 exclsets=1 seeds=11,6,12,16 nraw=1 nsig=1 nwk=1"),
        R("h_loop", "bound=3 seeds=11,6,16,17 eintr_wait=1 eintr_io=1 sc_fault=1 nraw=1 nsig=1 ops=%s" % C15_OPS, share=0.4),
        R("h_loop", "bound=2 seeds=11,6,16,10,12 nraw=1 nsig=1 absent=0,1,2,3,4,5 ops=%s" % C15_OPS),
        R("h_loop", "bound=2 seeds=11,6,16,10,12 nraw=1 nsig=1 absent=2 ops=%s" % C15_OPS),
        R("h_loop", "bound=2 seeds=11,6,16,10,12 nraw=1 nsig=1 absent=4,5 ops=%s" % C15_OPS),
        R("h_event_mt", "bound=2 transports=0-4 hacts=1 eintr=1", sched=True),
        R("h_raw", "bound=3 eintr=1", sched=True),
        R("h_work", "bound=1 eintr=1 progs=1,4,5", sched=True),
        R("h_pump", "mode=splice bound=2 no_pipe2=1"),
    ],
    rule="(a) all 15 exclusion sets x 3 spellings; (b) under each of the 4 methods, EINTR on any wait (immediately or after half of the "
         "sleep), EINTR on epoll_ctl and raw-event reads/writes, and each optional syscall starting to fail with ENOSYS (epoll_pwait2 also "
         "EPERM) at the k-th call, as deviations (bound 2 = any pair); (c) each optional syscall absent from the first call; hosted programs: "
         "seeds and actions of C01-C07, smallest C08/C09 scenarios, pump in both modes",
    explanation="every oracle of the hosted property stays switched on (no lost readiness, timers neither early nor overslept, no lost post, "
                "exactly-once, loop termination, no library fatal); after a mid-run switch of method the ground-truth check at the next wait "
                "is the direct test that registered interests survived",
    assumptions=LOOP_ASSUME + ["the four Linux poll methods only (kqueue, /dev/poll, event ports do not build here)",
                               "EINTR is injected only where the kernel can produce it (waits, epoll_ctl, blocking-capable pipe/eventfd I/O of raw events)"],
    deadline=dict(quick=300, thorough=1500),
)

C18_RULES = "leak-,fd-mode,stale-callback,cookie," + ABN
CHECKS["C18"] = dict(
    quick=[
        R("h_loop", "bound=1 cycles=2 cloexec_probe=1 seeds=%s,1,4,5,14,16 nfd=3 ntm=3 ntk=2 nev=2 nraw=1 nsig=1 nwk=1 rules=%s" % (ALL_SEEDS_C01, C18_RULES)),
        R("h_loop", "bound=2 cycles=3 seeds=11,4,12 nfd=2 ntm=2 ntk=1 nev=1 nraw=1 nsig=1 ops=%s,fdreg,tmreg,evreg,rawreg,sigreg rules=%s" % (UNREG_OPS, C18_RULES)),
        R("h_theap", "part=boundary depth=2", env=False),
        R("h_theap", "part=closure n=9 keys=3", env=False),
        R("h_pump", "mode=rw bound=3"),
        R("h_pump", "mode=splice bound=1"),
        R("h_pump", "mode=many bound=0"),
        R("h_inotify", "bound=0 workers=40"),
        R("h_popen", "bound=0"),
        R("h_thread", "bound=2", sched=True),
        R("h_work", "bound=1 methods=0,3 progs=1,4,5 puts=0,3", sched=True),
        R("h_event_mt", "bound=1 transports=0-3 hacts=1 p1=0,1,3 p2=0,1", sched=True),
        R("h_wait", "bound=1 steps=3", sched=True),
        R("h_loops_mt", "bound=2 cycles=3", sched=True),
    ],
    thorough=[
        R("h_loop", "bound=2 cycles=2 seeds=%s,1,4,5,14,16 nfd=2 ntm=2 ntk=2 nev=1 nraw=1 nsig=1 nwk=1 rules=%s" % (ALL_SEEDS_C01, C18_RULES), share=0.5),
        R("h_theap", "part=boundary depth=3", env=False),
        R("h_pump", "mode=rw bound=6"),
        R("h_pump", "mode=splice bound=2"),
        R("h_inotify", "bound=1 workers=40"),
        R("h_popen", "bound=0"),
        R("h_thread", "bound=4", sched=True),
        R("h_work", "bound=1", sched=True),
        R("h_event_mt", "bound=2 transports=0-4", sched=True),
        R("h_signal", "bound=2", sched=True),
        R("h_wait", "bound=1 steps=6", sched=True),
    ],
    rule="the programs of the other properties (all harnesses, ASan+UBSan builds, every object individually malloc()ed, poisoned and freed at "
         "the earliest moment the documentation allows), wrapped in 2-3 init/use/deinit cycles in the main thread, plus thread churn "
         "(iv_thread children ending by return / pthread_exit / with and without iv_deinit, pool workers) and timer populations across the "
         "128 / 16384 radix boundaries",
    explanation="sanitizer reports (heap/stack overflow, use after free, UB) are violations; a resource ledger counts the library's own "
                "allocations and descriptors (interposed malloc/free/close and creators) and must be balanced after every iv_deinit / thread "
                "end and equal from cycle to cycle; LeakSanitizer runs at the end of the timer-store workers; registered descriptors must be "
                "O_NONBLOCK and FD_CLOEXEC",
    assumptions=LOOP_ASSUME + MT_ASSUME,
    deadline=dict(quick=300, thorough=1500),
)

# ---------------------------------------------------------------- thorough is a superset of quick
# Every quick run that the thorough tier does not already contain (same harness, variant and arguments) is run first in
# the thorough tier too, at its quick bound; the thorough deadline grows by the quick one so that the deeper runs keep
# their time.  The quick runs finish by themselves well inside that allowance (DESIGN 9.7).
def _norm(r):
    return (r["harness"], r.get("variant", "asan"), " ".join(sorted(r["args"].split())))

for _cid, _spec in CHECKS.items():
    _have = set(_norm(t) for t in _spec["thorough"])
    _extra = []
    for _q in _spec["quick"]:
        if _norm(_q) not in _have:
            _e = dict(_q)
            _e.pop("share", None)
            _extra.append(_e)
            _have.add(_norm(_q))
    if _extra:
        _qd = _spec["deadline"]["quick"]
        # the prepended runs may use at most the quick allowance, split evenly over what is left of it
        for _i, _e in enumerate(_extra):
            _e["cap_s"] = _qd
        _spec["thorough"] = _extra + _spec["thorough"]
        _spec["deadline"] = dict(_spec["deadline"], thorough=_spec["deadline"]["thorough"] + _qd)
