#!/usr/bin/env python3
"""Regenerates /verif/MANIFEST.json from tools/checks.py (claimed checks) so that the manifest always matches
what bin/check can actually run."""
import json, os, sys
sys.path.insert(0, os.path.dirname(os.path.abspath(__file__)))
import checks as CK

props = [json.loads(l) for l in open('/verif/properties.jsonl')]
checks = []
na = []
for p in props:
    i = p['id']
    if i in CK.CHECKS:
        c = CK.CHECKS[i]
        checks.append(dict(
            property_id=i,
            quick_cmd="bin/check %s --tier quick" % i,
            thorough_cmd="bin/check %s --tier thorough" % i,
            evidence_file="/verif/evidence/%s.json" % i,
            replay_cmd_template="bin/check %s --replay {path}" % i,
            engine="mc-explorer",
            level_claimed=dict(category="model_checking", text=c.get("level_text", c.get("explanation", "")), design_ref=c.get("design_ref", "DESIGN.md section 3 (%s)" % i)),
            level_note=c.get("level_note", "; ".join(c.get("assumptions", []))),
            technique=c.get("technique", "exhaustive bounded enumeration of executions of the real code (stateless model checking)"),
        ))
    else:
        na.append(dict(property_id=i, reason=CK.NOT_CLAIMED.get(i, "check not built yet in this round; no claim is made")))
m = dict(
    version=1,
    setup_cmd="mkdir -p /verif/build /verif/evidence && python3 /verif/tools/vbuild.py h_avl asan noenv >/dev/null",
    hooks=dict(guard="BUYTENH_IVYKIS_VERIF", enable="checks compile /repo/src/*.c themselves with -DBUYTENH_IVYKIS_VERIF (tools/vbuild.py); no source hook exists at present: interposition is done by objcopy --redefine-syms on the compiled library objects",
               baseline_off_cmd="make -C /repo check", source_commits=[], add_only=True),
    engines=[dict(name="mc-explorer", path="/verif/mc", serves_properties=[c["property_id"] for c in checks],
                  kind_free_text="hand-written implementation-level model checker: choice oracle + cost-bounded exhaustive DFS with fork-per-execution, explicit-state BFS harnesses for the pure data structures")],
    checks=checks,
    not_applicable=na,
    notes="All checks rebuild the library objects from /repo's working tree on every run (content-hashed cache under /verif/build).",
)
json.dump(m, open('/verif/MANIFEST.json', 'w'), indent=1)
print("claimed:", [c["property_id"] for c in checks])
