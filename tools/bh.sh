#!/bin/bash
# bh.sh <harness> <variant> [sched]  -> prints binary path
python3 - "$@" <<'PY'
import sys; sys.path.insert(0,'/verif/tools'); import vbuild
print(vbuild.build_harness(sys.argv[1], sys.argv[2] if len(sys.argv)>2 else 'asan', with_env=True, with_sched=(len(sys.argv)>3)))
PY
