/*
 * env: the interposed environment of the library under test (DESIGN.md 2.3).
 * Library objects are compiled from /repo/src and their references to the
 * symbols below are renamed sym -> ivw_sym (objcopy --redefine-syms), so only
 * the library is intercepted, never the harness, libc or the sanitizers.
 */
#ifndef ENV_H
#define ENV_H
#include <poll.h>
#include <pthread.h>
#include <signal.h>
#include <stdint.h>
#include <sys/epoll.h>
#include <sys/types.h>
#include <time.h>

/* ---- virtual clock */
extern struct timespec env_now;
void env_set_time(const struct timespec *t);      /* fires emulated timerfds */
void env_advance_ns(long long ns);
long long env_ts_diff_ns(const struct timespec *a, const struct timespec *b);
int env_ts_cmp(const struct timespec *a, const struct timespec *b);

/* ---- kernel waits */
struct env_wait {
	int is_epoll;
	int epfd;
	struct epoll_event *ev;
	int maxev;
	struct pollfd *pfds;
	int nfds;
	long long timeout_ns;          /* <0: infinite */
	int ns_resolution;             /* 1: ppoll/epoll_pwait2, 0: ms */
	struct timespec deadline;      /* valid if timeout_ns >= 0 */
	int has_timerfd_deadline;      /* an emulated timerfd is armed */
	struct timespec timerfd_deadline;
};
enum { ENV_WB_REPOLL = 0, ENV_WB_TIMEOUT = 1, ENV_WB_EINTR = 2 };
struct env_wait_ops {
	void (*entry)(struct env_wait *w);
	int (*would_block)(struct env_wait *w);       /* nothing ready and timeout != 0 */
	void (*ret)(struct env_wait *w, int n);       /* about to return n to the library */
	int (*fault_eintr)(struct env_wait *w);       /* nonzero: return EINTR right away (may be NULL) */
};
extern struct env_wait_ops env_wait_ops;
extern unsigned long env_wait_count;

/* ---- poll method selection / optional syscalls */
extern const char *env_exclude_methods;           /* value of IV_EXCLUDE_POLL_METHOD seen by the library */
enum {
	ENV_SC_EPOLL_CREATE1, ENV_SC_EPOLL_PWAIT2, ENV_SC_TIMERFD_CREATE, ENV_SC_PPOLL, ENV_SC_EVENTFD2,
	ENV_SC_EVENTFD, ENV_SC_PIPE2, ENV_SC_SPLICE, ENV_SC_EPOLL_CREATE, ENV_SC_INOTIFY_INIT, ENV_NSC
};
/* 0: works; otherwise errno to fail with on every call from now on */
extern int env_sc_errno[ENV_NSC];
/* if set, consulted at each call of an optional syscall that still works:
 * return errno to make it start failing persistently now, or 0 */
extern int (*env_sc_fault_hook)(int sc);
extern unsigned long env_sc_calls[ENV_NSC];
/* one-shot fault for the next eventfd/pipe creation (e.g. EMFILE), 0 = none */
extern int env_fail_next_evfd_errno;
extern int env_fail_next_evfd_thread;
extern int env_fail_evfd_sticky;
/* hook: EINTR injection on read/write/epoll_ctl (return 1 to inject) */
extern int (*env_eintr_hook)(const char *what, int fd);
extern void (*env_after_eagain_hook)(const char *what, int fd);   /* called when splice() just returned EAGAIN */
extern int (*env_read_override)(int fd, void *buf, size_t n, ssize_t *ret);
extern int (*env_write_override)(int fd, const void *buf, size_t n, ssize_t *ret);
extern int (*env_shutdown_hook)(int fd, int how);   /* return 1 if handled */
/* shrink pipes created by the library to this many bytes (0 = leave) */
extern int env_pipe_size;
/* 1 (default): closing a descriptor the library did not create (or closed before) is a violation */
extern int env_check_close;

/* ---- descriptor classification (library-created descriptors) */
enum { ENV_FD_NONE = 0, ENV_FD_EPOLL, ENV_FD_TIMERFD, ENV_FD_EVENTFD, ENV_FD_PIPE_R, ENV_FD_PIPE_W, ENV_FD_INOTIFY, ENV_FD_OTHER };
int env_fd_kind(int fd);
int env_lib_fds_open(void);                        /* number of library-created fds still open */
void env_lib_fds_list(char *buf, int len);
int env_timerfd_armed(int fd, struct timespec *exp);
void env_forget_fd(int fd);                      /* a library-created descriptor was handed to the caller */
int env_fd_owner(int fd);                        /* scheduler id of the thread that created a library descriptor */
extern int (*env_owner_hook)(void);
int env_next_timerfd(struct timespec *out);      /* earliest armed emulated timerfd */
void env_compute_deadlines(struct env_wait *w);

/* ---- allocation ledger (library allocations only) */
extern long env_lib_allocs_live;
extern unsigned long env_lib_allocs_total;

/* ---- fatal capture */
void env_init(void);                               /* install fatal handler etc.; call first in exec */
extern char env_last_fatal[512];

/* ---- simulated child processes (fork/wait4/kill of the library) */
extern int env_sim_procs;                          /* 1: fork/wait4/kill served from the table */
enum { PR_FREE = 0, PR_RUNNING, PR_STOPPED, PR_ZOMBIE, PR_REAPED };
struct env_proc {
	int pid;
	int state;
	int nqueue;             /* unreaped status changes */
	int queue[8];
	int reaped_dead;        /* termination has been returned by wait4 */
	int kills_after_reap;
	int nsig;
	int sigs[16];           /* signals received via kill() */
	struct timespec sigtime[16];
};
#define ENV_MAXPROC 8
extern struct env_proc env_procs[ENV_MAXPROC];
extern int env_nprocs;
/* called inside the library's fork(): lets the harness decide what the child does
 * at once (return value ignored); may be NULL */
extern void (*env_fork_hook)(struct env_proc *p);
extern void (*env_kill_hook)(struct env_proc *p, int sig);
/* when set, fork() runs the library's child-side code in a real helper process */
extern int env_fork_real_helper;
pid_t env_fork_like_app(void);
struct env_proc *env_proc_find(int pid);
void env_proc_change(struct env_proc *p, int status);      /* queue a status change */
int env_proc_spawn_plain(void);                             /* a child the library knows nothing about */
#define ENV_ST_EXIT(n)   (((n) & 0xff) << 8)
#define ENV_ST_KILLED(s) ((s) & 0x7f)
#define ENV_ST_STOPPED(s) ((((s) & 0xff) << 8) | 0x7f)
#define ENV_ST_CONTINUED 0xffff

/* ---- threads: default pass-through, replaced by the scheduler in MT harnesses */
struct env_thr_ops {
	int (*mutex_lock)(pthread_mutex_t *);
	int (*mutex_unlock)(pthread_mutex_t *);
	int (*mutex_init)(pthread_mutex_t *, const pthread_mutexattr_t *);
	int (*mutex_destroy)(pthread_mutex_t *);
	int (*spin_lock)(pthread_spinlock_t *);
	int (*spin_unlock)(pthread_spinlock_t *);
	void (*lock_reinit)(void *);
	void (*sigmask_changed)(const sigset_t *now);
	int (*create)(pthread_t *, const pthread_attr_t *, void *(*)(void *), void *);
	int (*join)(pthread_t, void **);
	int (*detach)(pthread_t);
	int (*key_create)(pthread_key_t *, void (*)(void *));
	void *(*getspecific)(pthread_key_t);
	int (*setspecific)(pthread_key_t, const void *);
	/* scheduling point before an operation on a shared descriptor etc. */
	void (*point)(const char *what, long arg);
	/* MT kernel wait; NULL = single-threaded generic algorithm */
	int (*wait)(struct env_wait *w);
};
extern struct env_thr_ops env_thr;
extern int env_joined_threads;                   /* pthread_join calls made by the library */

/* real zero-timeout poll of a wait descriptor set; returns like epoll_wait/poll */
int env_real_poll0(struct env_wait *w);

#endif
