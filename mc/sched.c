/*
 * sched.c: serialising scheduler (see sched.h).  Compiled WITHOUT sanitizer
 * instrumentation: hand-offs use raw futexes and are therefore invisible to
 * the race detector.
 */
#ifndef _GNU_SOURCE
#define _GNU_SOURCE
#endif
#include <errno.h>
#include <linux/futex.h>
#include <poll.h>
#include <signal.h>
#include <stdio.h>
#include <stdlib.h>
#include <string.h>
#include <sys/syscall.h>
#include <unistd.h>
#include "mc.h"
#include "env.h"
#include "mcsched.h"

enum { OP_RUN, OP_LOCK, OP_JOIN, OP_WAIT, OP_START, OP_FLAG };
static const char *opn[] = { "run", "lock", "join", "wait", "start", "flag" };

struct thr {
	int used, finished;
	pthread_t pt;
	int go;
	int op;
	void *obj;
	int target;
	struct env_wait *w;
	int in_wait;
	const char *name;
	void (*fn)(void *);
	void *arg;
	void *(*lfn)(void *);
	int nsig;
	int sigq[8];
	sigset_t mask;          /* signals this thread currently blocks (tracked at pthread_sigmask) */
	const char *what;
};

static struct thr T[SCHED_MAXT];
static int nthr;
static int cur;
static __thread int self_id = -1;

int (*sched_on_quiescence)(void);
int (*sched_on_signal)(int tid, int sig);
void (*sched_on_wait_entry)(int tid, struct env_wait *w);
void (*sched_on_wait_return)(int tid, struct env_wait *w, int n);
long sched_max_points;
int sched_signal_atomic = 1;
int sched_signal_defer;
static int handlers_nonatomic;         /* signal handlers in progress that are not atomic steps */
int sched_fault_eintr;
int sched_no_more_choices;
long sched_points;

/* ---------------------------------------------------------------- futex */
static void fwait(int *addr)
{
	while (__atomic_load_n(addr, __ATOMIC_ACQUIRE) == 0)
		syscall(SYS_futex, addr, FUTEX_WAIT, 0, NULL, NULL, 0);
	__atomic_store_n(addr, 0, __ATOMIC_RELEASE);
}

static void fwake(int *addr)
{
	__atomic_store_n(addr, 1, __ATOMIC_RELEASE);
	syscall(SYS_futex, addr, FUTEX_WAKE, 1, NULL, NULL, 0);
}

/* ----------------------------------------------------- lock ownership */
#define MAXLK 64
static struct { void *addr; int owner; } lk[MAXLK];

static int *lk_owner(void *addr, int create)
{
	int i, fr = -1;
	for (i = 0; i < MAXLK; i++) {
		if (lk[i].addr == addr)
			return &lk[i].owner;
		if (!lk[i].addr && fr < 0)
			fr = i;
	}
	if (!create)
		return NULL;
	if (fr < 0)
		mc_broken("sched: lock table full");
	lk[fr].addr = addr;
	lk[fr].owner = -1;
	return &lk[fr].owner;
}

static void lk_forget(void *addr)
{
	int i;
	for (i = 0; i < MAXLK; i++)
		if (lk[i].addr == addr)
			lk[i].addr = NULL;
}

static int atomic_depth;

/* ---------------------------------------------------------- decisions */
static int wait_ready(struct thr *t)
{
	struct env_wait *w = t->w;
	int r;
	if (t->nsig && !sigismember(&t->mask, t->sigq[0]))
		return 1;
	if (w->timeout_ns >= 0 && env_ts_cmp(&w->deadline, &env_now) <= 0)
		return 1;
	if (w->is_epoll) {
		struct pollfd p = { w->epfd, POLLIN, 0 };
		do {
			r = poll(&p, 1, 0);
		} while (r < 0 && errno == EINTR);
		return r > 0;
	} else {
		struct pollfd cp[64];
		int n = w->nfds > 64 ? 64 : w->nfds;
		int k;
		/* copied by hand: libc's memcpy is intercepted by the race detector even in this
		 * uninstrumented unit, and this cross-thread peek must stay invisible to it */
		for (k = 0; k < n; k++) {
			cp[k].fd = ((volatile struct pollfd *)w->pfds)[k].fd;
			cp[k].events = ((volatile struct pollfd *)w->pfds)[k].events;
			cp[k].revents = 0;
		}
		do {
			r = poll(cp, n, 0);
		} while (r < 0 && errno == EINTR);
		return r > 0;
	}
}

static int op_ready(int i);

static int enabled(int i)
{
	struct thr *t = &T[i];
	if (!t->used || t->finished)
		return 0;
	/* a thread blocked in lock / join / flag wait still runs signal handlers */
	if (t->nsig && !sigismember(&t->mask, t->sigq[0]) && (t->op == OP_LOCK || t->op == OP_JOIN || t->op == OP_FLAG))
		return 1;
	return op_ready(i);
}

static int op_ready(int i)
{
	struct thr *t = &T[i];
	int *o;
	switch (t->op) {
	case OP_LOCK:
		o = lk_owner(t->obj, 1);
		return *o == -1;
	case OP_JOIN:
		return T[t->target].finished;
	case OP_WAIT:
		return wait_ready(t);
	case OP_FLAG:
		return *(volatile int *)t->obj != 0;
	default:
		return 1;
	}
}

static void describe(char *buf, int len)
{
	int i, o = 0;
	for (i = 0; i < nthr && o < len - 40; i++)
		if (T[i].used)
			o += snprintf(buf + o, len - o, "T%d(%s):%s%s ", i, T[i].name ? T[i].name : "", T[i].finished ? "finished" : opn[T[i].op],
				      T[i].op == OP_WAIT && !T[i].finished ? (T[i].w->timeout_ns < 0 ? "-inf" : "-timed") : "");
}

/* pick the next thread to run; called by the running thread `me` whose pending
 * op is set (or which has just finished).  Returns when `me` may proceed. */
static void decide(int me)
{
	int list[SCHED_MAXT], n, i, c, chosen, me_en;
	char lbl[48];

	sched_points++;
	if (sched_max_points && sched_points > sched_max_points)
		mc_done();      /* horizon */
	for (;;) {
		n = 0;
		me_en = !T[me].finished && enabled(me);
		if (me_en)
			list[n++] = me;
		for (i = 0; i < nthr; i++)
			if (i != me && enabled(i))
				list[n++] = i;
		if (n)
			break;
		/* nobody can run: let virtual time pass */
		{
			struct timespec best, tfd;
			int have = 0, allwait = 1, any = 0;
			for (i = 0; i < nthr; i++) {
				if (!T[i].used || T[i].finished)
					continue;
				any = 1;
				if (T[i].op == OP_FLAG)
					continue;       /* waiting for the harness: counts as idle */
				if (T[i].op != OP_WAIT) {
					allwait = 0;
					continue;
				}
				if (T[i].w->timeout_ns >= 0 && (!have || env_ts_cmp(&T[i].w->deadline, &best) < 0)) {
					best = T[i].w->deadline;
					have = 1;
				}
			}
			if (env_next_timerfd(&tfd) && (!have || env_ts_cmp(&tfd, &best) < 0)) {
				best = tfd;
				have = 1;
			}
			if (have) {
				env_set_time(&best);
				continue;
			}
			if (any && allwait) {
				if (sched_on_quiescence && sched_on_quiescence())
					continue;       /* the harness made progress possible again */
				mc_done();
			}
			{
				char d[400];
				describe(d, sizeof(d));
				mc_fail("deadlock", "no thread can make progress: %s", d);
			}
		}
	}
	if (n == 1 || sched_no_more_choices) {
		chosen = list[0];
	} else {
		snprintf(lbl, sizeof(lbl), "sched:T%d:%s", me, T[me].finished ? "fin" : opn[T[me].op]);
		c = mc_choose_c(n, MC_SCHED, lbl, me_en ? 1 : 0);
		chosen = list[c];
	}
	if (chosen == me)
		return;
	cur = chosen;
	fwake(&T[chosen].go);
	if (!T[me].finished)
		fwait(&T[me].go);
}

/* raise sig on the calling thread; while its handler runs every signal is blocked
 * (the library installs its handler with a full sa_mask) */
void sched_raise(int sig)
{
	int me = self_id;
	sigset_t saved;
	if (me < 0) {
		pthread_kill(pthread_self(), sig);
		return;
	}
	saved = T[me].mask;
	{
		struct sigaction sa;
		int k;
		sigaction(sig, NULL, &sa);
		for (k = 1; k < 65; k++)
			if (sigismember(&sa.sa_mask, k) == 1)
				sigaddset(&T[me].mask, k);
		if (!(sa.sa_flags & SA_NODEFER))
			sigaddset(&T[me].mask, sig);
	}
	pthread_kill(pthread_self(), sig);
	T[me].mask = saved;
}

static void deliver_signals(int me)
{
	/* the receiving thread raises the queued signal on itself: synchronous, honours the real mask */
	while (T[me].nsig) {
		sigset_t cur_mask;
		int sig = T[me].sigq[0];
		pthread_sigmask(SIG_SETMASK, NULL, &cur_mask);
		if (sigismember(&cur_mask, sig))
			break;
		memmove(&T[me].sigq[0], &T[me].sigq[1], (T[me].nsig - 1) * sizeof(int));
		T[me].nsig--;
		/* the handler runs synchronously here, as one atomic step - unless another thread is in the middle of a
		 * handler that is not atomic (it may hold a library lock): then this one cannot be an atomic step either */
		{
			int at = sched_signal_atomic && !handlers_nonatomic;
			atomic_depth += at;
			handlers_nonatomic += !at;
			if (!sched_on_signal || sched_on_signal(me, sig))
				sched_raise(sig);
			handlers_nonatomic -= !at;
			atomic_depth -= at;
		}
	}
}

void sched_atomic_begin(void) { atomic_depth++; }
void sched_atomic_end(void) { atomic_depth--; }

static void point(int op, void *obj, int target, const char *what)
{
	int me = self_id;
	if (me < 0)
		return;         /* not a controlled thread (e.g. library constructors before sched_init) */
	if (atomic_depth && op == OP_RUN)
		return;         /* inside a harness step declared atomic */
	if (atomic_depth && op == OP_LOCK) {
		int *o = lk_owner(obj, 1);
		if (*o != -1)
			mc_broken("sched: lock held by thread %d inside an atomic harness step", *o);
		return;
	}
	T[me].op = op;
	T[me].obj = obj;
	T[me].target = target;
	T[me].what = what;
	for (;;) {
		decide(me);
		if (T[me].nsig && !T[me].in_wait && sched_signal_defer && !sched_no_more_choices &&
		    !sigismember(&T[me].mask, T[me].sigq[0]) && mc_choose(2, MC_SCHED, "sig-later")) {
			/* a signal arrives when it arrives: it may also land at one of this thread's later points */
		} else if (T[me].nsig && !T[me].in_wait) {
			/* the handler has scheduling points of its own: they must not clobber this pending operation */
			T[me].op = OP_RUN;
			deliver_signals(me);
			T[me].op = op;
			T[me].obj = obj;
			T[me].target = target;
		}
		if (op_ready(me))
			break;          /* otherwise we were only woken to run a signal handler: block again */
	}
	T[me].op = OP_RUN;
}

/* harness-level hand-shakes stand for real application synchronisation (e.g. a mutex-protected "ready"
 * flag): the setter calls sched_publish() after setting the flag, the waiter gets the matching acquire here,
 * so that the race detector sees the happens-before edge an application would have */
static pthread_mutex_t hb_mutex = PTHREAD_MUTEX_INITIALIZER;

void sched_publish(void)
{
	pthread_mutex_lock(&hb_mutex);
	pthread_mutex_unlock(&hb_mutex);
}

void sched_wait_flag(volatile int *flag)
{
	point(OP_FLAG, (void *)flag, 0, "wait-flag");
	pthread_mutex_lock(&hb_mutex);
	pthread_mutex_unlock(&hb_mutex);
}

void sched_yield_point(const char *what)
{
	point(OP_RUN, NULL, 0, what);
}

/* ------------------------------------------------------------- threads */
struct keyrec { pthread_key_t key; void (*dtor)(void *); };
static struct keyrec keys[16];
static int nkeys;

static void run_tls_destructors(void)
{
	int round, i, again = 1;
	for (round = 0; round < 4 && again; round++) {
		again = 0;
		for (i = 0; i < nkeys; i++) {
			void *v = pthread_getspecific(keys[i].key);
			if (v && keys[i].dtor) {
				pthread_setspecific(keys[i].key, NULL);
				keys[i].dtor(v);
				again = 1;
			}
		}
	}
}

static void finish_thread(int me)
{
	run_tls_destructors();
	T[me].finished = 1;
	decide(me);
}

static void *trampoline(void *_t)
{
	struct thr *t = _t;
	int me = t - T;
	void *ret = NULL;
	self_id = me;
	fwait(&t->go);          /* OP_START: wait to be scheduled */
	t->op = OP_RUN;
	if (t->lfn)
		ret = t->lfn(t->arg);
	else
		t->fn(t->arg);
	finish_thread(me);
	return ret;
}

void sched_exit_thread(void)
{
	finish_thread(self_id);
	pthread_exit(NULL);
}

static int new_thread(const char *name, void (*fn)(void *), void *(*lfn)(void *), void *arg, pthread_t *out, const pthread_attr_t *attr)
{
	struct thr *t;
	int r;
	if (nthr >= SCHED_MAXT)
		mc_broken("sched: too many threads");
	t = &T[nthr];
	memset(t, 0, sizeof(*t));
	t->used = 1;
	t->op = OP_START;
	t->name = name;
	t->fn = fn;
	t->lfn = lfn;
	t->arg = arg;
	r = pthread_create(&t->pt, attr, trampoline, t);
	if (r)
		mc_broken("pthread_create: %s", strerror(r));
	if (out)
		*out = t->pt;
	return nthr++;
}

int sched_spawn(const char *name, void (*fn)(void *), void *arg)
{
	int id;
	point(OP_RUN, NULL, 0, "spawn");
	id = new_thread(name, fn, NULL, arg, NULL, NULL);
	return id;
}

void sched_join(int id)
{
	point(OP_JOIN, NULL, id, "join");
	pthread_join(T[id].pt, NULL);
}

int sched_self(void) { return self_id; }
int sched_nthreads(void) { return nthr; }
int sched_finished(int id) { return T[id].finished; }
int sched_in_wait(int tid) { return T[tid].in_wait; }
int sched_signals_pending(int tid) { return T[tid].nsig; }

void sched_signal(int tid, int sig)
{
	if (T[tid].nsig >= 8)
		mc_broken("sched: signal queue overflow");
	T[tid].sigq[T[tid].nsig++] = sig;
}

/* -------------------------------------------- env_thr implementations */
static int s_mutex_lock(pthread_mutex_t *m)
{
	int *o;
	if (self_id < 0)
		return pthread_mutex_lock(m);
	point(OP_LOCK, m, 0, "mutex_lock");
	o = lk_owner(m, 1);
	*o = self_id;
	return pthread_mutex_lock(m);
}

static int s_mutex_unlock(pthread_mutex_t *m)
{
	int *o = lk_owner(m, 0);
	int r = pthread_mutex_unlock(m);
	if (o)
		*o = -1;
	return r;
}

static int s_mutex_destroy(pthread_mutex_t *m)
{
	lk_forget(m);
	return pthread_mutex_destroy(m);
}

static int s_spin_lock(pthread_spinlock_t *l)
{
	int *o;
	if (self_id < 0)
		return pthread_spin_lock(l);
	point(OP_LOCK, (void *)l, 0, "spin_lock");
	o = lk_owner((void *)l, 1);
	*o = self_id;
	return pthread_spin_lock(l);
}

static int s_spin_unlock(pthread_spinlock_t *l)
{
	int *o = lk_owner((void *)l, 0);
	int r = pthread_spin_unlock(l);
	if (o)
		*o = -1;
	return r;
}

int (*sched_create_fault)(void);      /* return an errno to make the library's pthread_create fail */

static int s_create(pthread_t *pt, const pthread_attr_t *a, void *(*fn)(void *), void *arg)
{
	point(OP_RUN, NULL, 0, "pthread_create");
	if (sched_create_fault) {
		int e = sched_create_fault();
		if (e)
			return e;
	}
	new_thread("lib", NULL, fn, arg, pt, a);
	return 0;
}

static int s_join(pthread_t pt, void **ret)
{
	int i;
	for (i = 0; i < nthr; i++)
		if (T[i].used && pthread_equal(T[i].pt, pt)) {
			point(OP_JOIN, NULL, i, "pthread_join");
			return pthread_join(pt, ret);
		}
	return pthread_join(pt, ret);
}

static int s_key_create(pthread_key_t *k, void (*d)(void *))
{
	int r = pthread_key_create(k, NULL);
	if (r == 0 && nkeys < 16) {
		keys[nkeys].key = *k;
		keys[nkeys].dtor = d;
		nkeys++;
	}
	return r;
}

static void s_point(const char *what, long arg)
{
	int k;
	if (self_id < 0)
		return;
	if (!strcmp(what, "read") || !strcmp(what, "write")) {
		k = env_fd_kind((int)arg);
		if (k != ENV_FD_EVENTFD && k != ENV_FD_PIPE_R && k != ENV_FD_PIPE_W)
			return;
	} else if (!strcmp(what, "epoll_ctl")) {
		if (env_fd_owner((int)arg) == self_id)
			return;
	} else if (!strcmp(what, "close") || !strcmp(what, "sigmask")) {
		return;
	}
	point(OP_RUN, NULL, 0, what);
}

static int s_wait(struct env_wait *w)
{
	int me = self_id, n;

	env_wait_count++;
	env_compute_deadlines(w);
	if (sched_on_wait_entry)
		sched_on_wait_entry(me, w);
	if (sched_fault_eintr && mc_choose(2, MC_FAULT, "wait-eintr")) {
		if (sched_on_wait_return)
			sched_on_wait_return(me, w, -1);
		errno = EINTR;
		return -1;
	}
	if (w->timeout_ns == 0) {
		point(OP_RUN, NULL, 0, "poll0");
		n = env_real_poll0(w);
		if (sched_on_wait_return)
			sched_on_wait_return(me, w, n);
		return n;
	}
	T[me].in_wait = 1;
	T[me].w = w;
	for (;;) {
		T[me].op = OP_WAIT;
		decide(me);
		T[me].op = OP_RUN;
		if (T[me].nsig && !sigismember(&T[me].mask, T[me].sigq[0])) {
			T[me].in_wait = 0;
			deliver_signals(me);
			if (sched_on_wait_return)
				sched_on_wait_return(me, w, -1);
			errno = EINTR;
			return -1;
		}
		n = env_real_poll0(w);
		if (n > 0)
			break;
		if (w->timeout_ns >= 0 && env_ts_cmp(&w->deadline, &env_now) <= 0) {
			n = 0;
			break;
		}
	}
	T[me].in_wait = 0;
	if (sched_on_wait_return)
		sched_on_wait_return(me, w, n);
	return n;
}

static void s_sigmask_changed(const sigset_t *now)
{
	if (self_id >= 0)
		T[self_id].mask = *now;
}

void sched_init(void)
{
	memset(T, 0, sizeof(T));
	nthr = 1;
	T[0].used = 1;
	T[0].op = OP_RUN;
	T[0].pt = pthread_self();
	T[0].name = "main";
	self_id = 0;
	cur = 0;
	env_thr.mutex_lock = s_mutex_lock;
	env_thr.mutex_unlock = s_mutex_unlock;
	env_thr.mutex_destroy = s_mutex_destroy;
	env_thr.spin_lock = s_spin_lock;
	env_thr.spin_unlock = s_spin_unlock;
	env_thr.lock_reinit = lk_forget;
	env_thr.sigmask_changed = s_sigmask_changed;
	env_thr.create = s_create;
	env_thr.join = s_join;
	env_thr.key_create = s_key_create;
	env_thr.point = s_point;
	env_thr.wait = s_wait;
	env_owner_hook = sched_self;
}
