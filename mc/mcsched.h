/*
 * sched: cooperative serialising scheduler for multi-threaded harnesses
 * (DESIGN.md 2.4).  Real pthreads, exactly one runnable at a time, hand-off
 * by raw futex from an uninstrumented translation unit.  Every scheduling
 * decision is an MC_SCHED choice: default = keep running the current thread
 * if it is enabled (switching away from it costs one preemption), otherwise
 * the lowest enabled id (free).
 */
#ifndef SCHED_H
#define SCHED_H
#include <pthread.h>
#include "env.h"

#define SCHED_MAXT 12

void sched_init(void);                       /* main thread becomes thread 0; installs env_thr ops */
/* create a controlled thread running fn(arg); returns its scheduler id */
int sched_spawn(const char *name, void (*fn)(void *), void *arg);
void sched_join(int id);                     /* harness-level join of a thread made by sched_spawn */
int sched_self(void);
int sched_nthreads(void);
int sched_finished(int id);
/* explicit scheduling point for harness code (e.g. before a harness-visible step) */
void sched_yield_point(const char *what);
/* block the calling thread until *flag becomes non-zero (harness-level hand-shake) */
void sched_wait_flag(volatile int *flag);
/* call after setting a flag another thread waits for with sched_wait_flag (release side of the hand-shake) */
void sched_publish(void);
/* bracket a harness step that is to be treated as one atomic scheduler step */
void sched_atomic_begin(void);
void sched_atomic_end(void);
/* end the calling controlled thread from inside its body (runs TLS destructors like thread exit) */
void sched_exit_thread(void) __attribute__((noreturn));

/* called when every thread is blocked in an unbounded kernel wait (quiescence):
 * must end the execution (mc_done / mc_fail) */
extern int (*sched_on_quiescence)(void);         /* return 1 if the harness made progress possible again */
/* called in the receiving thread right before a queued signal is raised on it */
extern int (*sched_on_signal)(int tid, int sig);   /* return 0 to drop the signal */
/* optional: called at every kernel-wait entry of a thread (oracles) */
extern void (*sched_on_wait_entry)(int tid, struct env_wait *w);
/* optional: called when a kernel wait is about to return n to the library */
extern void (*sched_on_wait_return)(int tid, struct env_wait *w, int n);
/* step horizon: executions longer than this many scheduling points end quietly (0 = none) */
extern long sched_max_points;
/* 1 (default): a signal handler runs as one atomic scheduler step; 0: its lock operations are scheduling points */
extern int sched_signal_atomic;
extern int sched_signal_defer;  /* 1: a deliverable queued signal may be held back to a later scheduling point of its thread (cost 1 each) */
/* 1: every kernel wait may be interrupted (EINTR) as an MC_FAULT choice */
extern int sched_fault_eintr;
/* optional: decide that the library's next pthread_create fails (return the errno, e.g. EAGAIN) */
extern int (*sched_create_fault)(void);
/* 1: from now on always take the default scheduling decision (used for the tear-down tail of an execution) */
extern int sched_no_more_choices;
extern long sched_points;

/* queue a signal for thread tid; it is delivered by that thread itself
 * (pthread_kill(self)) at one of its next scheduling points / kernel waits */
void sched_signal(int tid, int sig);
int sched_signals_pending(int tid);
/* raise a signal on the calling controlled thread (handler runs synchronously, all signals blocked meanwhile) */
void sched_raise(int sig);
/* 1: thread is currently blocked in a kernel wait */
int sched_in_wait(int tid);

#endif
