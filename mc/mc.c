/*
 * mc.c: choice oracle, parallel stateless explorer with cost bound and
 * optional quiescent-state pruning.  Compiled WITHOUT sanitizers.
 */
#ifndef _GNU_SOURCE
#define _GNU_SOURCE
#endif
#include <errno.h>
#include <fcntl.h>
#include <sched.h>
#include <signal.h>
#include <stdarg.h>
#include <stdatomic.h>
#include <stdio.h>
#include <stdlib.h>
#include <string.h>
#include <sys/mman.h>
#include <sys/stat.h>
#include <sys/time.h>
#include <sys/types.h>
#include <sys/wait.h>
#include <time.h>
#include <unistd.h>
#include "mc.h"

#define MAXCH   6000
#define MAXST   2048
#define OBSMAX  12288
#define MSGMAX  2048
#define ERRMAX  6144
#define MAXVIOL 24
#define MAXSAMP 6
#define MAXW    64

struct chrec { uint16_t n, chosen; uint8_t kind, altcost; uint16_t lh; };
struct strec { uint32_t at; uint32_t pad; uint64_t h; };

struct execbuf {
	/* input */
	uint32_t plen;
	uint32_t prefix[MAXCH];     /* chosen | lh<<16 */
	int bound;
	/* output */
	volatile int verdict;       /* 0 none, 1 ok, 2 viol, 3 diverge, 4 broken */
	uint32_t nch;
	struct chrec ch[MAXCH];
	uint32_t nst;
	struct strec st[MAXST];
	uint64_t obs_hash;
	uint32_t obs_len;
	int callbacks;
	char obs[OBSMAX];
	char rule[64];
	char msg[MSGMAX];
};

struct viol {
	uint64_t key;
	uint32_t nch;
	uint32_t choices[MAXCH];
	char rule[64];
	char msg[MSGMAX];
	char err[ERRMAX];
	char obs[OBSMAX];
	int count;
	int confirmed;              /* 1 reproduced twice identically, -1 not reproducible */
};

struct sample {
	uint32_t nch;
	uint16_t choices[256];
	char obs[1024];
	int cost;
};

#define QSLOTS 512
struct qent { uint32_t len; uint32_t c[MAXCH]; };

struct shared {
	atomic_flag lock;
	atomic_int stop;            /* 1 deadline, 2 too many violations */
	atomic_long outstanding;
	int qn;
	struct qent q[QSLOTS];
	/* counters */
	atomic_ulong execs, transitions, pruned, nontrivial_execs, maxdepth;
	atomic_ulong distinct_obs, distinct_obs_nt, distinct_states;
	atomic_ulong kind_points[MC_NKINDS], kind_nondefault[MC_NKINDS];
	atomic_ulong abnormal;
	atomic_ulong cost_hist[16];
	int nviol;
	struct viol viol[MAXVIOL];
	int nsamp;
	struct sample samp[MAXSAMP];
	int diverged, broken;
	char broken_msg[MSGMAX];
	uint64_t ht_mask;
};

static struct shared *S;
static uint64_t *ht_state;      /* key table */
static uint8_t *ht_state_budget;
static uint64_t *ht_obs;
static uint64_t *ht_obs_nt;
static struct execbuf *XB;      /* this worker's / this child's buffer */
static int worker_id = -1;
static int in_child;
static int cur_cost;
static const struct mc_harness *H;
static int g_argc;
static char **g_argv;
static int verbose;
static int stopfirst;
static int replay_loose;	/* hand-written replay=1,0,2 without label hashes: only the menu size is checked */
static int ignore_abnormal;
static int scan_stderr;
static char errfile[256];
static const char *rundir = "/verif/build/run";

/* ------------------------------------------------------------------ utils */
static double now_s(void)
{
	struct timespec ts;
	clock_gettime(CLOCK_MONOTONIC, &ts);
	return ts.tv_sec + ts.tv_nsec / 1e9;
}

uint64_t mc_hash_bytes(uint64_t h, const void *p, size_t n)
{
	const unsigned char *c = p;
	size_t i;
	if (!h)
		h = 1469598103934665603ULL;
	for (i = 0; i < n; i++) {
		h ^= c[i];
		h *= 1099511628211ULL;
	}
	return h;
}

uint64_t mc_hash_u64(uint64_t h, uint64_t v)
{
	h = mc_hash_bytes(h, &v, sizeof(v));
	/* extra avalanche */
	h ^= h >> 29;
	h *= 0xbf58476d1ce4e5b9ULL;
	h ^= h >> 32;
	return h;
}

uint64_t mc_hash_str(uint64_t h, const char *s)
{
	return mc_hash_bytes(h, s, strlen(s) + 1);
}

static uint64_t fin(uint64_t h)
{
	h ^= h >> 30; h *= 0xbf58476d1ce4e5b9ULL;
	h ^= h >> 27; h *= 0x94d049bb133111ebULL;
	h ^= h >> 31;
	return h ? h : 1;
}

const char *mc_arg(const char *key, const char *dflt)
{
	int i;
	size_t kl = strlen(key);
	for (i = 1; i < g_argc; i++)
		if (!strncmp(g_argv[i], key, kl) && g_argv[i][kl] == '=')
			return g_argv[i] + kl + 1;
	return dflt;
}

long mc_arg_int(const char *key, long dflt)
{
	const char *v = mc_arg(key, NULL);
	return v ? strtol(v, NULL, 0) : dflt;
}

/* per-worker scratch directory (tmpfs if available); removed when the worker / master exits */
static char scratch_dir[128];
const char *mc_scratch(void)
{
	if (!scratch_dir[0]) {
		snprintf(scratch_dir, sizeof(scratch_dir), "%s/mcs.%d.%d", access("/dev/shm", W_OK) == 0 ? "/dev/shm" : rundir,
			 in_child ? (int)getppid() : (int)getpid(), worker_id);
	}
	mkdir(scratch_dir, 0755);
	return scratch_dir;
}

static void scratch_cleanup(void)
{
	char cmd[200];
	/* name is a pure function of (pid of the worker, worker id): recompute in the worker itself */
	snprintf(cmd, sizeof(cmd), "rm -rf '%s/mcs.%d.%d'", access("/dev/shm", W_OK) == 0 ? "/dev/shm" : rundir, (int)getpid(), worker_id);
	if (system(cmd)) {}
}

int mc_in_child(void) { return in_child; }
int mc_worker_id(void) { return worker_id; }
int mc_budget_left(void) { return XB->bound - cur_cost; }
int mc_cost_so_far(void) { return cur_cost; }
int mc_nchoices(void) { return XB->nch; }
int mc_in_replay_prefix(void) { return XB->nch < XB->plen; }

/* ------------------------------------------------------- child-side API */
static uint16_t labelhash(int n, int kind, const char *label)
{
	uint64_t h = mc_hash_str(0, label);
	h = mc_hash_u64(h, (uint64_t)n * 16 + kind);
	return (uint16_t)(h ^ (h >> 16) ^ (h >> 32));
}

static void child_exit(int code) __attribute__((noreturn));
static void child_exit(int code)
{
	_exit(code);
}

int mc_choose_c(int n, int kind, const char *label, int altcost)
{
	uint32_t idx = XB->nch;
	struct chrec *c;
	int v = 0;
	uint16_t lh;

	if (n < 1)
		mc_broken("mc_choose: n=%d at %s", n, label);
	if (idx >= MAXCH)
		mc_broken("too many choice points (%d) at %s", idx, label);
	if (n > 60000)
		mc_broken("menu too large");
	lh = labelhash(n, kind, label);
	if (idx < XB->plen) {
		v = XB->prefix[idx] & 0xffff;
		if (v >= n || (!replay_loose && (XB->prefix[idx] >> 16) != lh)) {
			XB->verdict = 3;
			snprintf((char *)XB->msg, MSGMAX,
				 "replay divergence at choice %u (%s): recorded %d of lh %x, now n=%d lh %x",
				 idx, label, v, XB->prefix[idx] >> 16, n, lh);
			child_exit(MC_EXIT_DIVERGE);
		}
	}
	c = &XB->ch[idx];
	c->n = n;
	c->chosen = v;
	c->kind = kind;
	c->altcost = altcost;
	c->lh = lh;
	XB->nch = idx + 1;
	if (v)
		cur_cost += altcost;
	if (verbose)
		fprintf(stderr, "[mc] choice %u %s n=%d -> %d\n", idx, label, n, v);
	return v;
}

int mc_choose(int n, int kind, const char *label)
{
	return mc_choose_c(n, kind, label, kind == MC_CONFIG ? 0 : 1);
}

void mc_obs(const char *fmt, ...)
{
	char buf[512];
	va_list ap;
	int l;

	va_start(ap, fmt);
	l = vsnprintf(buf, sizeof(buf), fmt, ap);
	va_end(ap);
	if (l >= (int)sizeof(buf))
		l = sizeof(buf) - 1;
	XB->obs_hash = mc_hash_bytes(XB->obs_hash, buf, l + 1);
	if (XB->obs_len + l + 2 < OBSMAX) {
		memcpy(XB->obs + XB->obs_len, buf, l);
		XB->obs_len += l;
		XB->obs[XB->obs_len++] = ';';
		XB->obs[XB->obs_len] = 0;
	}
	if (verbose)
		fprintf(stderr, "[mc] obs %s\n", buf);
}

void mc_mark_callback(void)
{
	XB->callbacks++;
}

void mc_state(uint64_t h)
{
	if (XB->nst < MAXST) {
		XB->st[XB->nst].at = XB->nch;
		XB->st[XB->nst].h = h;
		XB->nst++;
	}
}

void mc_fail(const char *rule, const char *fmt, ...)
{
	va_list ap;

	snprintf((char *)XB->rule, sizeof(XB->rule), "%s", rule);
	va_start(ap, fmt);
	vsnprintf((char *)XB->msg, MSGMAX, fmt, ap);
	va_end(ap);
	XB->verdict = 2;
	if (verbose)
		fprintf(stderr, "[mc] FAIL %s: %s\n", XB->rule, XB->msg);
	child_exit(MC_EXIT_VIOL);
}

void mc_done(void)
{
	XB->verdict = 1;
	child_exit(MC_EXIT_OK);
}

void mc_broken(const char *fmt, ...)
{
	va_list ap;

	va_start(ap, fmt);
	vsnprintf((char *)XB->msg, MSGMAX, fmt, ap);
	va_end(ap);
	XB->verdict = 4;
	fprintf(stderr, "[mc] BROKEN: %s\n", XB->msg);
	child_exit(MC_EXIT_BROKEN);
}

/* used by env fatal handler: record a message without exiting */
void mc_note_fatal(const char *rule, const char *msg)
{
	snprintf((char *)XB->rule, sizeof(XB->rule), "%s", rule);
	snprintf((char *)XB->msg, MSGMAX, "%s", msg);
}

/* ------------------------------------------------------------ hash sets */
static int ht_insert(uint64_t *tab, uint64_t key)
{
	uint64_t m = S->ht_mask, i = key & m;
	for (;;) {
		uint64_t cur = __atomic_load_n(&tab[i], __ATOMIC_RELAXED);
		if (cur == key)
			return 0;
		if (cur == 0) {
			uint64_t exp = 0;
			if (__atomic_compare_exchange_n(&tab[i], &exp, key, 0,
							__ATOMIC_RELAXED, __ATOMIC_RELAXED))
				return 1;
			if (exp == key)
				return 0;
		}
		i = (i + 1) & m;
	}
}

/* returns 1 if (state, budget) must be expanded, 0 if already covered */
static int state_visit(uint64_t key, int budget)
{
	uint64_t m = S->ht_mask, i = key & m;
	uint8_t b = (uint8_t)(budget + 1);
	for (;;) {
		uint64_t cur = __atomic_load_n(&ht_state[i], __ATOMIC_ACQUIRE);
		if (cur == 0) {
			uint64_t exp = 0;
			if (__atomic_compare_exchange_n(&ht_state[i], &exp, key, 0,
							__ATOMIC_ACQ_REL, __ATOMIC_ACQUIRE)) {
				atomic_fetch_add(&S->distinct_states, 1);
				cur = key;
			} else {
				cur = exp;
			}
		}
		if (cur == key) {
			for (;;) {
				uint8_t ob = __atomic_load_n(&ht_state_budget[i], __ATOMIC_RELAXED);
				if (ob >= b)
					return 0;
				if (__atomic_compare_exchange_n(&ht_state_budget[i], &ob, b, 0,
								__ATOMIC_RELAXED, __ATOMIC_RELAXED))
					return 1;
			}
		}
		i = (i + 1) & m;
	}
}

/* -------------------------------------------------------------- queue */
static void lock(void) { while (atomic_flag_test_and_set_explicit(&S->lock, memory_order_acquire)) sched_yield(); }
static void unlock(void) { atomic_flag_clear_explicit(&S->lock, memory_order_release); }

struct pitem { uint32_t len; uint32_t *c; };
static struct pitem *pstack;
static int pn, pcap;

static void ppush(const uint32_t *c, uint32_t len)
{
	if (pn == pcap) {
		pcap = pcap ? pcap * 2 : 1024;
		pstack = realloc(pstack, pcap * sizeof(*pstack));
	}
	pstack[pn].len = len;
	pstack[pn].c = malloc(len * sizeof(uint32_t) + 4);
	memcpy(pstack[pn].c, c, len * sizeof(uint32_t));
	pn++;
}

static void donate(void)
{
	/* move the oldest private items (largest subtrees) to the shared queue */
	if (pn <= 1 || S->qn >= QSLOTS / 4)
		return;
	lock();
	int k = 0;
	while (k < pn - 1 && S->qn < QSLOTS / 2) {
		struct qent *e = &S->q[S->qn++];
		e->len = pstack[k].len;
		memcpy(e->c, pstack[k].c, e->len * sizeof(uint32_t));
		free(pstack[k].c);
		k++;
	}
	unlock();
	if (k) {
		memmove(pstack, pstack + k, (pn - k) * sizeof(*pstack));
		pn -= k;
	}
}

static int get_item(uint32_t *out, uint32_t *len)
{
	if (pn) {
		pn--;
		*len = pstack[pn].len;
		memcpy(out, pstack[pn].c, *len * sizeof(uint32_t));
		free(pstack[pn].c);
		return 1;
	}
	lock();
	if (S->qn) {
		struct qent *e = &S->q[--S->qn];
		*len = e->len;
		memcpy(out, e->c, e->len * sizeof(uint32_t));
		unlock();
		return 1;
	}
	unlock();
	return 0;
}

/* ---------------------------------------------------------- executions */
static void read_err(char *dst, size_t max)
{
	int fd = open(errfile, O_RDONLY);
	ssize_t n = 0;
	dst[0] = 0;
	if (fd < 0)
		return;
	n = read(fd, dst, max - 1);
	if (n < 0)
		n = 0;
	dst[n] = 0;
	close(fd);
}

/* collect the sanitizer's own summary lines (all distinct ones, up to 4) as the finding's identity;
 * a race on a global carries the global's name */
static int summarise_sanitizer(char *dst, size_t max)
{
	static char eb[ERRMAX];
	static char lines[4][400];
	char *p = eb;
	int n = 0, i, o = 0;
	read_err(eb, ERRMAX);
	while (n < 4) {
		char *blk = p, *sum = strstr(p, "SUMMARY: "), *q, *loc, tmp[400];
		int dup = 0;
		if (!sum)
			break;
		q = strchr(sum, '\n');
		if (q)
			*q = 0;
		/* the report this summary belongs to starts at the last "WARNING:" / "ERROR:" before it */
		*sum = 0;
		{
			char *w = blk, *last = NULL;
			while ((w = strstr(w, "WARNING: ")) != NULL) { last = w; w += 9; }
			loc = last ? strstr(last, "Location is global '") : NULL;
		}
		*sum = 'S';
		if (loc) {
			char *e = strchr(loc + 20, '\'');
			char nm[80];
			int l = e ? (int)(e - (loc + 20)) : 0;
			if (l > 79) l = 79;
			memcpy(nm, loc + 20, l);
			nm[l] = 0;
			snprintf(tmp, sizeof(tmp), "%.300s [global %s]", sum, nm);
		} else {
			snprintf(tmp, sizeof(tmp), "%.380s", sum);
		}
		for (i = 0; i < n; i++)
			if (!strcmp(lines[i], tmp))
				dup = 1;
		if (!dup)
			strcpy(lines[n++], tmp);
		if (!q)
			break;
		p = q + 1;
	}
	if (!n) {
		p = strstr(eb, "runtime error:");
		if (p) {
			char *q = strchr(p, '\n');
			if (q)
				*q = 0;
			snprintf(lines[n++], 400, "%.380s", p);
		}
	}
	if (!n)
		return 0;
	for (i = 0; i < n; i++) {
		int j;
		for (j = i + 1; j < n; j++)
			if (strcmp(lines[j], lines[i]) < 0) {
				char t[400];
				strcpy(t, lines[i]); strcpy(lines[i], lines[j]); strcpy(lines[j], t);
			}
	}
	dst[0] = 0;
	for (i = 0; i < n && o < (int)max - 8; i++)
		o += snprintf(dst + o, max - o, "%s%s", i ? " || " : "", lines[i]);
	return n;
}

/* run one execution with the prefix in XB; returns classification:
 * 1 ok, 2 violation (rule/msg filled), 3 diverge, 4 broken */
static int run_one(void)
{
	pid_t pid;
	int st;
	int timeout = H->timeout_s ? H->timeout_s : 20;

	XB->verdict = 0;
	XB->nch = 0;
	XB->nst = 0;
	XB->obs_hash = 0;
	XB->obs_len = 0;
	XB->obs[0] = 0;
	XB->callbacks = 0;
	XB->rule[0] = 0;
	XB->msg[0] = 0;

	pid = fork();
	if (pid < 0) {
		perror("fork");
		exit(3);
	}
	if (pid == 0) {
		int fd;
		in_child = 1;
		cur_cost = 0;
		fd = open(errfile, O_WRONLY | O_CREAT | O_TRUNC, 0644);
		if (fd >= 0) {
			if (!verbose)
				dup2(fd, 2);
			close(fd);
		}
		alarm(timeout);
		H->exec();
		mc_broken("harness exec returned without verdict");
	}
	while (waitpid(pid, &st, 0) < 0) {
		if (errno != EINTR) {
			perror("waitpid");
			exit(3);
		}
	}
	if (WIFEXITED(st)) {
		int c = WEXITSTATUS(st);
		if (scan_stderr && (c == MC_EXIT_OK || c == MC_EXIT_VIOL)) {
			/* race reports do not stop the execution (halt_on_error=0), so that one known race
			 * cannot hide a second one: look for them in the captured stderr */
			static char sm[MSGMAX];
			if (summarise_sanitizer(sm, MSGMAX)) {
				snprintf((char *)XB->rule, sizeof(XB->rule), "sanitizer");
				snprintf((char *)XB->msg, MSGMAX, "%s", sm);
				XB->verdict = 2;
				return 2;
			}
		}
		if (c == MC_EXIT_OK && XB->verdict == 1)
			return 1;
		if (c == MC_EXIT_VIOL && XB->verdict == 2)
			return 2;
		if (c == MC_EXIT_DIVERGE)
			return 3;
		if (c == MC_EXIT_BROKEN)
			return 4;
		if (c == MC_EXIT_ASAN) {
			if (!XB->rule[0])
				snprintf((char *)XB->rule, sizeof(XB->rule), "sanitizer");
			if (!XB->msg[0]) {
				static char sm[MSGMAX];
				if (summarise_sanitizer(sm, MSGMAX))
					snprintf((char *)XB->msg, MSGMAX, "%s", sm);
				else
					snprintf((char *)XB->msg, MSGMAX, "sanitizer report (see stderr excerpt)");
			}
			return 2;
		}
		snprintf((char *)XB->rule, sizeof(XB->rule), "unexpected-exit");
		snprintf((char *)XB->msg, MSGMAX, "child exited with code %d verdict %d", c, XB->verdict);
		return 2;
	}
	if (WIFSIGNALED(st)) {
		int sig = WTERMSIG(st);
		if (sig == SIGALRM) {
			snprintf((char *)XB->rule, sizeof(XB->rule), "hang");
			snprintf((char *)XB->msg, MSGMAX, "execution exceeded %d s", timeout);
			return 2;
		}
		if (XB->rule[0] && sig == SIGABRT)
			return 2;   /* library fatal: message captured */
		snprintf((char *)XB->rule, sizeof(XB->rule), "crash");
		snprintf((char *)XB->msg, MSGMAX, "child killed by signal %d", sig);
		return 2;
	}
	return 4;
}

static uint64_t viol_key(const char *rule, const char *msg)
{
	/* normalise digits so that counters / addresses do not split findings */
	char buf[256];
	int i, j = 0;
	for (i = 0; msg[i] && j < 200; i++) {
		char c = msg[i];
		if (c >= '0' && c <= '9')
			c = '#';
		buf[j++] = c;
	}
	buf[j] = 0;
	return fin(mc_hash_str(mc_hash_str(0, rule), buf));
}

static void record_violation(void)
{
	uint64_t key = viol_key((char *)XB->rule, (char *)XB->msg);
	int i;
	struct viol *v = NULL;

	lock();
	for (i = 0; i < S->nviol; i++)
		if (S->viol[i].key == key) {
			S->viol[i].count++;
			/* keep the shortest / cheapest witness */
			if (XB->nch < S->viol[i].nch)
				v = &S->viol[i];
			break;
		}
	if (i == S->nviol) {
		if (S->nviol < MAXVIOL) {
			v = &S->viol[S->nviol++];
			v->count = 1;
			v->key = key;
		} else {
			atomic_store(&S->stop, 2);
		}
	}
	if (v) {
		uint32_t k;
		v->nch = XB->nch;
		for (k = 0; k < XB->nch; k++)
			v->choices[k] = XB->ch[k].chosen | ((uint32_t)XB->ch[k].lh << 16);
		memcpy(v->rule, (char *)XB->rule, sizeof(v->rule));
		memcpy(v->msg, (char *)XB->msg, MSGMAX);
		memcpy(v->obs, XB->obs, OBSMAX);
		read_err(v->err, ERRMAX);
		v->confirmed = 0;
	}
	if (stopfirst)
		atomic_store(&S->stop, 2);      /* stopfirst=1 (seed runs only): one witness is enough, the bound is reported incomplete */
	unlock();
}

static void maybe_sample(int cost)
{
	unsigned long e = atomic_load(&S->execs);
	int take = 0;
	uint32_t k;
	struct sample *s;

	if (S->nsamp >= MAXSAMP)
		return;
	if (e <= 1)
		take = 1;
	else if (XB->callbacks && cost > 0 && (e & (e - 1)) == 0)
		take = 1;
	if (!take)
		return;
	lock();
	if (S->nsamp < MAXSAMP) {
		s = &S->samp[S->nsamp++];
		s->nch = XB->nch > 256 ? 256 : XB->nch;
		for (k = 0; k < s->nch; k++)
			s->choices[k] = XB->ch[k].chosen;
		snprintf(s->obs, sizeof(s->obs), "%s", XB->obs);
		s->cost = cost;
	}
	unlock();
}

static void process_result(int cls, uint32_t plen)
{
	uint32_t i, si = 0;
	int cost = 0, pruned = 0, nondefault = 0;
	static uint32_t child[MAXCH];
	uint64_t oh;

	atomic_fetch_add(&S->execs, 1);
	atomic_fetch_add(&S->transitions, XB->nch);
	{
		unsigned long md = atomic_load(&S->maxdepth);
		while (XB->nch > md && !atomic_compare_exchange_weak(&S->maxdepth, &md, XB->nch))
			;
	}
	if (cls == 3) {
		char pre[900];
		int o = 0;
		uint32_t k;
		for (k = 0; k < plen && o < 880; k++)
			o += snprintf(pre + o, sizeof(pre) - o, "%s%u:%u", k ? "," : "", XB->prefix[k] & 0xffff, XB->prefix[k] >> 16);
		lock();
		S->diverged++;
		snprintf(S->broken_msg, MSGMAX, "%s | prefix=%s | obs=%.600s", (char *)XB->msg, pre, XB->obs);
		unlock();
		return;
	}
	if (cls == 4) {
		lock();
		S->broken++;
		snprintf(S->broken_msg, MSGMAX, "%s", (char *)XB->msg);
		unlock();
		return;
	}
	if (cls == 2) {
		const char *r = (char *)XB->rule;
		int abn = !strcmp(r, "sanitizer") || !strcmp(r, "crash") || !strcmp(r, "hang") ||
			  !strcmp(r, "lib-fatal") || !strcmp(r, "unexpected-exit");
		if (abn)
			atomic_fetch_add(&S->abnormal, 1);
		if (!(abn && ignore_abnormal))
			record_violation();
	}

	for (i = 0; i < XB->nch; i++) {
		struct chrec *c = &XB->ch[i];
		child[i] = c->chosen | ((uint32_t)c->lh << 16);
		if (i >= plen) {
			atomic_fetch_add(&S->kind_points[c->kind], 1);
		}
		if (i + 1 >= plen && c->chosen)
			; /* deviation itself counted below */
	}
	/* statistics on the deviation taken by this execution */
	if (plen) {
		struct chrec *c = &XB->ch[plen - 1];
		if (plen - 1 < XB->nch)
			atomic_fetch_add(&S->kind_nondefault[c->kind], 1);
	}

	for (i = 0; i < XB->nch; i++) {
		struct chrec *c = &XB->ch[i];
		/* state records taken before choice i */
		while (si < XB->nst && XB->st[si].at <= i) {
			if (XB->st[si].at >= plen && !pruned) {
				if (!state_visit(fin(XB->st[si].h), XB->bound - cost)) {
					pruned = 1;
					atomic_fetch_add(&S->pruned, 1);
				}
			}
			si++;
		}
		if (i >= plen && !pruned) {
			int alt;
			if (cost + c->altcost <= XB->bound || c->altcost == 0) {
				for (alt = c->n - 1; alt >= 1; alt--) {
					child[i] = alt | ((uint32_t)c->lh << 16);
					atomic_fetch_add(&S->outstanding, 1);
					ppush(child, i + 1);
				}
				child[i] = c->chosen | ((uint32_t)c->lh << 16);
			}
		}
		if (c->chosen) {
			cost += c->altcost;
			if (c->kind != MC_CONFIG)
				nondefault++;
		}
	}
	/* trailing state records */
	while (si < XB->nst) {
		if (XB->st[si].at >= plen && !pruned)
			state_visit(fin(XB->st[si].h), XB->bound - cost);
		si++;
	}

	oh = fin(XB->obs_hash ? XB->obs_hash : 7);
	if (ht_insert(ht_obs, oh))
		atomic_fetch_add(&S->distinct_obs, 1);
	if (XB->callbacks && nondefault) {
		atomic_fetch_add(&S->nontrivial_execs, 1);
		if (ht_insert(ht_obs_nt, oh))
			atomic_fetch_add(&S->distinct_obs_nt, 1);
	}
	if (cost < 16)
		atomic_fetch_add(&S->cost_hist[cost], 1);
	maybe_sample(cost);
}

static void worker(int id, int bound, double deadline)
{
	static uint32_t item[MAXCH];
	uint32_t len;
	int idle_spins = 0;

	worker_id = id;
	snprintf(errfile, sizeof(errfile), "%s/%s.%d.w%d.err", rundir, H->name, (int)getppid(), id);
	for (;;) {
		if (atomic_load(&S->stop))
			break;
		if (!get_item(item, &len)) {
			if (atomic_load(&S->outstanding) == 0)
				break;
			if (++idle_spins > 50)
				usleep(200);
			else
				sched_yield();
			continue;
		}
		idle_spins = 0;
		XB->plen = len;
		memcpy(XB->prefix, item, len * sizeof(uint32_t));
		XB->bound = bound;
		process_result(run_one(), len);
		atomic_fetch_sub(&S->outstanding, 1);
		donate();
		if (deadline > 0 && now_s() > deadline)
			atomic_store(&S->stop, 1);
	}
	unlink(errfile);
	scratch_cleanup();
	_exit(0);
}

/* --------------------------------------------------------------- output */
static void jstr(FILE *f, const char *s)
{
	fputc('"', f);
	for (; *s; s++) {
		unsigned char c = *s;
		if (c == '"' || c == '\\')
			fprintf(f, "\\%c", c);
		else if (c == '\n')
			fputs("\\n", f);
		else if (c == '\t')
			fputs("\\t", f);
		else if (c < 0x20 || c >= 0x7f)
			fprintf(f, "\\u%04x", c);
		else
			fputc(c, f);
	}
	fputc('"', f);
}

static void jchoices32(FILE *f, const uint32_t *c, uint32_t n)
{
	uint32_t i;
	fputc('"', f);
	for (i = 0; i < n; i++)
		fprintf(f, "%s%u:%u", i ? "," : "", c[i] & 0xffff, c[i] >> 16);
	fputc('"', f);
}

static void *shmap(size_t sz)
{
	void *p = mmap(NULL, sz, PROT_READ | PROT_WRITE, MAP_SHARED | MAP_ANONYMOUS | MAP_NORESERVE, -1, 0);
	if (p == MAP_FAILED) {
		perror("mmap");
		exit(3);
	}
	return p;
}

static int parse_choices(const char *s, uint32_t *out)
{
	int n = 0;
	while (*s && n < MAXCH) {
		char *e;
		unsigned long v = strtoul(s, &e, 10), lh = 0;
		if (e == s)
			break;
		if (*e == ':')
			lh = strtoul(e + 1, &e, 10);
		out[n++] = (uint32_t)v | ((uint32_t)lh << 16);
		s = e;
		if (*s == ',')
			s++;
	}
	return n;
}

static int confirm_violation(struct viol *v, int bound)
{
	/* re-run twice, must give the same rule and observation hash */
	uint64_t oh[2];
	char rule[2][64];
	int k;
	for (k = 0; k < 2; k++) {
		int cls;
		XB->plen = v->nch;
		memcpy(XB->prefix, v->choices, v->nch * sizeof(uint32_t));
		XB->bound = bound + 1000;
		cls = run_one();
		if (cls != 2)
			return -1;
		oh[k] = XB->obs_hash;
		snprintf(rule[k], 64, "%s", (char *)XB->rule);
	}
	if (oh[0] != oh[1] || strcmp(rule[0], rule[1]) || strcmp(rule[0], v->rule))
		return -1;
	return 1;
}

int mc_main(int argc, char **argv, const struct mc_harness *h)
{
	int bound_from, bound_to, nworkers, b, i;
	double deadline_s, t0, deadline;
	const char *out, *replay;
	size_t htsz;
	FILE *f;
	int any_viol = 0, any_broken = 0;
	int htbits;

	g_argc = argc;
	g_argv = argv;
	H = h;
	verbose = mc_arg_int("verbose", 0);
	ignore_abnormal = mc_arg_int("abn_ignore", 0);
	scan_stderr = mc_arg_int("scan_stderr", 0);
	bound_to = mc_arg_int("bound", 1);
	bound_from = mc_arg_int("bound_from", bound_to);
	nworkers = mc_arg_int("workers", 16);
	if (nworkers > MAXW)
		nworkers = MAXW;
	deadline_s = mc_arg_int("deadline", 0);
	stopfirst = mc_arg_int("stopfirst", 0);
	out = mc_arg("out", NULL);
	replay = mc_arg("replay", NULL);
	rundir = mc_arg("rundir", "/verif/build/run");
	htbits = mc_arg_int("htbits", 24);
	mkdir(rundir, 0755);

	signal(SIGPIPE, SIG_IGN);
	setvbuf(stdout, NULL, _IOLBF, 0);

	S = shmap(sizeof(*S));
	htsz = (size_t)1 << htbits;
	XB = shmap(sizeof(struct execbuf) * (nworkers + 1));
	if (h->setup)
		h->setup();

	if (replay) {
		int cls;
		S->ht_mask = 0;
		XB = &XB[0];
		snprintf(errfile, sizeof(errfile), "%s/%s.%d.replay.err", rundir, H->name, (int)getpid());
		replay_loose = !strchr(replay, ':');
		XB->plen = parse_choices(replay, XB->prefix);
		XB->bound = 100000;
		verbose = mc_arg_int("verbose", 1);
		cls = run_one();
		printf("replay: class=%s rule=%s msg=%s\nobs=%s\n",
		       cls == 1 ? "ok" : cls == 2 ? "VIOLATION" : cls == 3 ? "DIVERGED" : "BROKEN",
		       (char *)XB->rule, (char *)XB->msg, XB->obs);
		if (cls == 2) {
			static char err[ERRMAX];
			read_err(err, ERRMAX);
			if (err[0] && !verbose)
				printf("stderr:\n%s\n", err);
		}
		unlink(errfile);
		scratch_cleanup();
		return cls == 1 ? 0 : cls == 2 ? 1 : 3;
	}

	t0 = now_s();
	deadline = deadline_s > 0 ? t0 + deadline_s : 0;

	f = out ? fopen(out, "w") : stdout;
	if (!f) {
		perror(out);
		return 3;
	}
	fprintf(f, "{\"harness\":");
	jstr(f, h->name);
	fprintf(f, ",\"args\":[");
	for (i = 1; i < argc; i++) {
		fprintf(f, "%s", i > 1 ? "," : "");
		jstr(f, argv[i]);
	}
	fprintf(f, "],\"bounds\":[");

	for (b = bound_from; b <= bound_to; b++) {
		pid_t pids[MAXW];
		double tb = now_s();
		int w;

		if (deadline > 0 && tb > deadline)
			break;
		memset(S, 0, sizeof(*S));
		S->ht_mask = htsz - 1;
		ht_state = shmap(htsz * 8);
		ht_state_budget = shmap(htsz);
		ht_obs = shmap(htsz * 8);
		ht_obs_nt = shmap(htsz * 8);
		/* root item: empty prefix */
		S->q[0].len = 0;
		S->qn = 1;
		atomic_store(&S->outstanding, 1);
		fflush(f);
		for (w = 0; w < nworkers; w++) {
			pids[w] = fork();
			if (pids[w] == 0) {
				XB = &XB[w + 1];
				worker(w, b, deadline);
			}
		}
		for (w = 0; w < nworkers; w++) {
			int st;
			waitpid(pids[w], &st, 0);
			if (!WIFEXITED(st) || WEXITSTATUS(st) != 0) {
				S->broken++;
				snprintf(S->broken_msg, MSGMAX, "worker %d died (status %x)", w, st);
			}
		}
		/* confirm violations */
		XB = &XB[0];
		snprintf(errfile, sizeof(errfile), "%s/%s.%d.master.err", rundir, H->name, (int)getpid());
		for (i = 0; i < S->nviol; i++)
			S->viol[i].confirmed = confirm_violation(&S->viol[i], b);
		unlink(errfile);
		XB = XB; /* master buffer is index 0 */

		{
			int complete = (atomic_load(&S->stop) == 0) && !S->broken && !S->diverged;
			int k;
			fprintf(f, "%s{\"bound\":%d,\"complete\":%s,\"stop_reason\":%d,\"wall_s\":%.3f,",
				b > bound_from ? "," : "", b, complete ? "true" : "false",
				(int)atomic_load(&S->stop), now_s() - tb);
			fprintf(f, "\"executions\":%lu,\"transitions\":%lu,\"distinct_obs\":%lu,"
				"\"distinct_obs_nontrivial\":%lu,\"nontrivial_execs\":%lu,\"distinct_states\":%lu,"
				"\"pruned\":%lu,\"max_depth\":%lu,\"abnormal\":%lu,\"diverged\":%d,\"broken\":%d,",
				atomic_load(&S->execs), atomic_load(&S->transitions),
				atomic_load(&S->distinct_obs), atomic_load(&S->distinct_obs_nt),
				atomic_load(&S->nontrivial_execs), atomic_load(&S->distinct_states),
				atomic_load(&S->pruned), atomic_load(&S->maxdepth),
				atomic_load(&S->abnormal), S->diverged, S->broken);
			fprintf(f, "\"broken_msg\":");
			jstr(f, S->broken_msg);
			fprintf(f, ",\"choice_points\":{");
			{
				static const char *kn[MC_NKINDS] = { "config", "action", "stimulus", "fault", "sched" };
				for (k = 0; k < MC_NKINDS; k++)
					fprintf(f, "%s\"%s\":%lu", k ? "," : "", kn[k], atomic_load(&S->kind_points[k]));
				fprintf(f, "},\"deviations_taken\":{");
				for (k = 0; k < MC_NKINDS; k++)
					fprintf(f, "%s\"%s\":%lu", k ? "," : "", kn[k], atomic_load(&S->kind_nondefault[k]));
			}
			fprintf(f, "},\"cost_hist\":[");
			for (k = 0; k < 16; k++)
				fprintf(f, "%s%lu", k ? "," : "", atomic_load(&S->cost_hist[k]));
			fprintf(f, "],\"samples\":[");
			for (k = 0; k < S->nsamp; k++) {
				uint32_t j;
				fprintf(f, "%s{\"cost\":%d,\"choices\":\"", k ? "," : "", S->samp[k].cost);
				for (j = 0; j < S->samp[k].nch; j++)
					fprintf(f, "%s%u", j ? "," : "", S->samp[k].choices[j]);
				fprintf(f, "\",\"obs\":");
				jstr(f, S->samp[k].obs);
				fprintf(f, "}");
			}
			fprintf(f, "],\"violations\":[");
			for (k = 0; k < S->nviol; k++) {
				struct viol *v = &S->viol[k];
				fprintf(f, "%s{\"rule\":", k ? "," : "");
				jstr(f, v->rule);
				fprintf(f, ",\"msg\":");
				jstr(f, v->msg);
				fprintf(f, ",\"count\":%d,\"confirmed\":%d,\"choices\":", v->count, v->confirmed);
				jchoices32(f, v->choices, v->nch);
				fprintf(f, ",\"obs\":");
				jstr(f, v->obs);
				fprintf(f, ",\"stderr\":");
				jstr(f, v->err);
				fprintf(f, "}");
				any_viol = 1;
			}
			fprintf(f, "]}");
			if (S->broken || S->diverged)
				any_broken = 1;
			fprintf(stderr, "[%s] bound %d: execs=%lu trans=%lu obs=%lu states=%lu pruned=%lu viol=%d%s %.1fs\n",
				h->name, b, atomic_load(&S->execs), atomic_load(&S->transitions),
				atomic_load(&S->distinct_obs), atomic_load(&S->distinct_states),
				atomic_load(&S->pruned), S->nviol, complete ? "" : " (INCOMPLETE)", now_s() - tb);
			if (S->broken || S->diverged)
				fprintf(stderr, "[%s] BROKEN/DIVERGED: %s\n", h->name, S->broken_msg);
		}
		munmap(ht_state, htsz * 8);
		munmap(ht_state_budget, htsz);
		munmap(ht_obs, htsz * 8);
		munmap(ht_obs_nt, htsz * 8);
		if (any_viol || any_broken)
			break;
	}
	scratch_cleanup();
	fprintf(f, "],\"wall_s\":%.3f}\n", now_s() - t0);
	if (out)
		fclose(f);
	return any_broken ? 3 : any_viol ? 1 : 0;
}
