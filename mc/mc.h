/*
 * mc: choice oracle + deviation/preemption-bounded exhaustive explorer.
 * See DESIGN.md section 2.2.
 *
 * One execution of a harness runs in a freshly forked child.  All
 * nondeterminism goes through mc_choose().  The explorer enumerates every
 * choice sequence whose accumulated cost stays within the bound.
 */
#ifndef MC_H
#define MC_H
#include <stdint.h>
#include <stddef.h>

enum { MC_CONFIG = 0, MC_ACTION = 1, MC_STIM = 2, MC_FAULT = 3, MC_SCHED = 4, MC_NKINDS = 5 };

/* choose among n alternatives (0 = default). non-default alternatives cost
 * 0 for MC_CONFIG and 1 for the other kinds. */
int mc_choose(int n, int kind, const char *label);
/* same with an explicit cost for the non-default alternatives */
int mc_choose_c(int n, int kind, const char *label, int altcost);

/* observation trace (hashed; a prefix of the text is kept for samples) */
void mc_obs(const char *fmt, ...) __attribute__((format(printf, 1, 2)));
/* mark that user-visible callback activity happened (non-triviality rule) */
void mc_mark_callback(void);
/* quiescent-point canonical state hash (single-threaded harnesses only) */
void mc_state(uint64_t h);
/* count an explicit-state search state (for harnesses that do their own BFS) */

/* oracle verdicts; none of these return */
void mc_fail(const char *rule, const char *fmt, ...) __attribute__((noreturn, format(printf, 2, 3)));
void mc_done(void) __attribute__((noreturn));
/* harness/environment problem (not a property violation): check is broken */
void mc_broken(const char *fmt, ...) __attribute__((noreturn, format(printf, 1, 2)));

/* record rule/msg without exiting (used right before abort()) */
void mc_note_fatal(const char *rule, const char *msg);

int mc_budget_left(void);
int mc_cost_so_far(void);
int mc_nchoices(void);
int mc_in_replay_prefix(void);

/* harness parameters given on the command line as key=value */
const char *mc_arg(const char *key, const char *dflt);
long mc_arg_int(const char *key, long dflt);

/* true inside an execution child */
int mc_in_child(void);
/* per-execution scratch id (worker index), for scratch file names */
int mc_worker_id(void);
/* per-worker scratch directory on tmpfs (created on demand, removed when the worker exits) */
const char *mc_scratch(void);

/* hash helpers */
uint64_t mc_hash_bytes(uint64_t h, const void *p, size_t n);
uint64_t mc_hash_u64(uint64_t h, uint64_t v);
uint64_t mc_hash_str(uint64_t h, const char *s);

struct mc_harness {
	const char *name;
	void (*exec)(void);          /* one execution; ends with mc_done()/mc_fail() */
	void (*setup)(void);         /* once in the master before workers fork (may be NULL) */
	int timeout_s;               /* per execution; 0 = default 20 */
};

int mc_main(int argc, char **argv, const struct mc_harness *h);

/* exit codes of an execution child */
#define MC_EXIT_OK        0
#define MC_EXIT_VIOL      41
#define MC_EXIT_DIVERGE   42
#define MC_EXIT_BROKEN    43
#define MC_EXIT_ASAN      44

#endif
