/*
 * env.c: definitions of the ivw_* symbols (see env.h, DESIGN.md 2.3).
 */
#ifndef _GNU_SOURCE
#define _GNU_SOURCE
#endif
#include <errno.h>
#include <fcntl.h>
#include <stdarg.h>
#include <stdio.h>
#include <stdlib.h>
#include <string.h>
#include <unistd.h>
#include <sys/eventfd.h>
#include <sys/inotify.h>
#include <sys/ioctl.h>
#include <sys/resource.h>
#include <sys/socket.h>
#include <sys/syscall.h>
#include <sys/time.h>
#include <sys/timerfd.h>
#include <sys/wait.h>
#include "mc.h"
#include "env.h"

void iv_set_fatal_msg_handler(void (*handler)(const char *msg));

/* ------------------------------------------------------------ clock */
struct timespec env_now = { 1000, 0 };

int env_ts_cmp(const struct timespec *a, const struct timespec *b)
{
	if (a->tv_sec != b->tv_sec)
		return a->tv_sec < b->tv_sec ? -1 : 1;
	if (a->tv_nsec != b->tv_nsec)
		return a->tv_nsec < b->tv_nsec ? -1 : 1;
	return 0;
}

long long env_ts_diff_ns(const struct timespec *a, const struct timespec *b)
{
	return (long long)(a->tv_sec - b->tv_sec) * 1000000000LL + (a->tv_nsec - b->tv_nsec);
}

#define MAXFD 4096
static unsigned char fdk[MAXFD];
static struct { int armed; struct timespec exp; } tfd[MAXFD];

static signed char fdowner[MAXFD];
int (*env_owner_hook)(void);

static void set_kind(int fd, int k)
{
	if (fd >= 0 && fd < MAXFD) {
		fdk[fd] = k;
		fdowner[fd] = env_owner_hook ? env_owner_hook() : 0;
	}
}

void env_forget_fd(int fd)
{
	if (fd >= 0 && fd < MAXFD)
		fdk[fd] = 0;
}

int env_fd_owner(int fd)
{
	return (fd >= 0 && fd < MAXFD) ? fdowner[fd] : -1;
}

int env_next_timerfd(struct timespec *out)
{
	int i, have = 0;
	for (i = 0; i < MAXFD; i++)
		if (fdk[i] == ENV_FD_TIMERFD && tfd[i].armed && (!have || env_ts_cmp(&tfd[i].exp, out) < 0)) {
			*out = tfd[i].exp;
			have = 1;
		}
	return have;
}

int env_fd_kind(int fd)
{
	return (fd >= 0 && fd < MAXFD) ? fdk[fd] : ENV_FD_NONE;
}

int env_lib_fds_open(void)
{
	int i, n = 0;
	for (i = 0; i < MAXFD; i++)
		if (fdk[i])
			n++;
	return n;
}

void env_lib_fds_list(char *buf, int len)
{
	static const char *nm[] = { "", "epoll", "timerfd", "eventfd", "pipe-r", "pipe-w", "inotify", "other" };
	int i, o = 0;
	buf[0] = 0;
	for (i = 0; i < MAXFD && o < len - 24; i++)
		if (fdk[i])
			o += snprintf(buf + o, len - o, "%d:%s ", i, nm[fdk[i]]);
}

int env_timerfd_armed(int fd, struct timespec *exp)
{
	if (fd < 0 || fd >= MAXFD || fdk[fd] != ENV_FD_TIMERFD || !tfd[fd].armed)
		return 0;
	if (exp)
		*exp = tfd[fd].exp;
	return 1;
}

static void tfd_fire_due(void)
{
	int i;
	for (i = 0; i < MAXFD; i++)
		if (fdk[i] == ENV_FD_TIMERFD && tfd[i].armed && env_ts_cmp(&tfd[i].exp, &env_now) <= 0) {
			uint64_t one = 1;
			tfd[i].armed = 0;
			if (write(i, &one, 8) != 8)
				mc_broken("timerfd stand-in write failed: %s", strerror(errno));
		}
}

void env_set_time(const struct timespec *t)
{
	if (env_ts_cmp(t, &env_now) > 0)
		env_now = *t;
	tfd_fire_due();
}

void env_advance_ns(long long ns)
{
	struct timespec t = env_now;
	t.tv_sec += ns / 1000000000LL;
	t.tv_nsec += ns % 1000000000LL;
	if (t.tv_nsec >= 1000000000L) {
		t.tv_sec++;
		t.tv_nsec -= 1000000000L;
	}
	env_set_time(&t);
}

int ivw_clock_gettime(clockid_t clk, struct timespec *ts)
{
	(void)clk;
	*ts = env_now;
	return 0;
}

int ivw_gettimeofday(struct timeval *tv, void *tz)
{
	(void)tz;
	tv->tv_sec = env_now.tv_sec;
	tv->tv_usec = env_now.tv_nsec / 1000;
	return 0;
}

/* --------------------------------------------------- config / faults */
const char *env_exclude_methods;
int env_sc_errno[ENV_NSC];
int (*env_sc_fault_hook)(int sc);
unsigned long env_sc_calls[ENV_NSC];
int env_fail_next_evfd_errno;
int env_fail_next_evfd_thread = -1;
int env_fail_evfd_sticky;                /* 1: the shortage lasts until the harness clears it (every creator fails) */       /* -1: whoever creates the next wake-up descriptor; else only that thread */
int (*env_eintr_hook)(const char *what, int fd);
void (*env_after_eagain_hook)(const char *what, int fd);
int env_pipe_size;
int env_check_close = 1;

static int sc_fails(int sc)
{
	env_sc_calls[sc]++;
	if (!env_sc_errno[sc] && env_sc_fault_hook) {
		int e = env_sc_fault_hook(sc);
		if (e)
			env_sc_errno[sc] = e;
	}
	if (env_sc_errno[sc]) {
		errno = env_sc_errno[sc];
		return 1;
	}
	return 0;
}

char *ivw_getenv(const char *name)
{
	if (!strcmp(name, "IV_EXCLUDE_POLL_METHOD"))
		return (char *)env_exclude_methods;
	return getenv(name);
}

int ivw_getrlimit(int r, struct rlimit *l) { return getrlimit(r, l); }
int ivw_setrlimit(int r, const struct rlimit *l) { (void)r; (void)l; return 0; }
uid_t ivw_geteuid(void) { return geteuid(); }
uid_t ivw_getuid(void) { return getuid(); }
pid_t ivw_getpid(void) { return getpid(); }

/* ------------------------------------------------------ allocations */
long env_lib_allocs_live;
unsigned long env_lib_allocs_total;

void *ivw_malloc(size_t n)
{
	void *p = malloc(n);
	if (p) {
		/* what malloc() returns is indeterminate: make it all-ones so that a field the library forgets to
		 * initialise (a flag word, a pointer) is never accidentally zero */
		memset(p, 0xff, n);
		__atomic_add_fetch(&env_lib_allocs_live, 1, __ATOMIC_RELAXED);
		__atomic_add_fetch(&env_lib_allocs_total, 1, __ATOMIC_RELAXED);
	}
	return p;
}

void *ivw_calloc(size_t a, size_t b)
{
	void *p = calloc(a, b);
	if (p) {
		__atomic_add_fetch(&env_lib_allocs_live, 1, __ATOMIC_RELAXED);
		__atomic_add_fetch(&env_lib_allocs_total, 1, __ATOMIC_RELAXED);
	}
	return p;
}

char *ivw_strdup(const char *s)
{
	char *p = strdup(s);
	if (p) {
		__atomic_add_fetch(&env_lib_allocs_live, 1, __ATOMIC_RELAXED);
		__atomic_add_fetch(&env_lib_allocs_total, 1, __ATOMIC_RELAXED);
	}
	return p;
}

void ivw_free(void *p)
{
	if (p)
		__atomic_sub_fetch(&env_lib_allocs_live, 1, __ATOMIC_RELAXED);
	free(p);
}

/* ------------------------------------------------------------ fatal */
char env_last_fatal[512];

static void env_fatal_handler(const char *msg)
{
	snprintf(env_last_fatal, sizeof(env_last_fatal), "%s", msg);
	mc_note_fatal("lib-fatal", msg);
}

void ivw_abort(void)
{
	abort();
}

void ivw_exit(int code)
{
	_exit(code);
}

void env_init(void)
{
	iv_set_fatal_msg_handler(env_fatal_handler);
}

/* ------------------------------------------------------ descriptors */
static int eintr(const char *what, int fd)
{
	if (env_eintr_hook && env_eintr_hook(what, fd)) {
		errno = EINTR;
		return 1;
	}
	return 0;
}

/* simulated descriptors: return 1 and set *ret/errno if the call was served */
int (*env_read_override)(int fd, void *buf, size_t n, ssize_t *ret);
int (*env_write_override)(int fd, const void *buf, size_t n, ssize_t *ret);
int (*env_shutdown_hook)(int fd, int how);

ssize_t ivw_read(int fd, void *buf, size_t n)
{
	ssize_t r;
	if (env_read_override && env_read_override(fd, buf, n, &r))
		return r;
	if (env_thr.point)
		env_thr.point("read", fd);
	if (eintr("read", fd))
		return -1;
	return read(fd, buf, n);
}

ssize_t ivw_write(int fd, const void *buf, size_t n)
{
	ssize_t r;
	if (env_write_override && env_write_override(fd, buf, n, &r))
		return r;
	if (env_thr.point)
		env_thr.point("write", fd);
	if (eintr("write", fd))
		return -1;
	return write(fd, buf, n);
}

int ivw_close(int fd)
{
	if (env_thr.point)
		env_thr.point("close", fd);
	if (fd >= 0 && fd < MAXFD) {
		if (!fdk[fd] && env_check_close && mc_in_child())
			mc_fail("close-unowned", "the library closed descriptor %d, which it does not own (never created by it, or already closed by it: "
				"a double close can destroy a descriptor another thread has just been given)", fd);
		fdk[fd] = 0;
		tfd[fd].armed = 0;
	}
	return close(fd);
}

int ivw_fcntl(int fd, int cmd, ...)
{
	va_list ap;
	long arg;
	va_start(ap, cmd);
	arg = va_arg(ap, long);
	va_end(ap);
	return fcntl(fd, cmd, arg);
}

int ivw_ioctl(int fd, unsigned long req, ...)
{
	va_list ap;
	void *arg;
	va_start(ap, req);
	arg = va_arg(ap, void *);
	va_end(ap);
	return ioctl(fd, req, arg);
}

int ivw_setsockopt(int fd, int level, int name, const void *val, socklen_t len)
{
	return setsockopt(fd, level, name, val, len);
}

int ivw_shutdown(int fd, int how)
{
	if (env_shutdown_hook && env_shutdown_hook(fd, how))
		return 0;
	return shutdown(fd, how);
}

ssize_t ivw_splice(int fdin, loff_t *offin, int fdout, loff_t *offout, size_t len, unsigned int flags)
{
	if (sc_fails(ENV_SC_SPLICE))
		return -1;
	if (eintr("splice", fdin))
		return -1;
	{
		ssize_t r = splice(fdin, offin, fdout, offout, len, flags);
		if (r < 0 && errno == EAGAIN && env_after_eagain_hook) {
			/* the world goes on between two system calls of one library call: the harness may let data arrive now */
			env_after_eagain_hook("splice", fdin);
			errno = EAGAIN;
		}
		return r;
	}
}

static void shrink_pipe(int *fd)
{
	if (env_pipe_size)
		fcntl(fd[1], F_SETPIPE_SZ, env_pipe_size);
}

int ivw_pipe(int *fd)
{
	int r;
	if (env_fail_next_evfd_errno && (env_fail_next_evfd_thread < 0 || (env_owner_hook && env_owner_hook() == env_fail_next_evfd_thread))) {
		errno = env_fail_next_evfd_errno;
		if (!env_fail_evfd_sticky)
			env_fail_next_evfd_errno = 0;
		return -1;
	}
	r = pipe(fd);
	if (r == 0) {
		set_kind(fd[0], ENV_FD_PIPE_R);
		set_kind(fd[1], ENV_FD_PIPE_W);
		shrink_pipe(fd);
	}
	return r;
}

int ivw_pipe2(int *fd, int flags)
{
	int r;
	if (sc_fails(ENV_SC_PIPE2))
		return -1;
	r = pipe2(fd, flags);
	if (r == 0) {
		set_kind(fd[0], ENV_FD_PIPE_R);
		set_kind(fd[1], ENV_FD_PIPE_W);
		shrink_pipe(fd);
	}
	return r;
}

static int do_eventfd(unsigned int count, int flags, int sc)
{
	int r;
	if (sc_fails(sc))
		return -1;
	if (env_fail_next_evfd_errno && (env_fail_next_evfd_thread < 0 || (env_owner_hook && env_owner_hook() == env_fail_next_evfd_thread))) {
		errno = env_fail_next_evfd_errno;
		if (!env_fail_evfd_sticky)
			env_fail_next_evfd_errno = 0;
		return -1;
	}
	r = eventfd(count, flags);
	if (r >= 0)
		set_kind(r, ENV_FD_EVENTFD);
	return r;
}

int ivw_eventfd(unsigned int count, int flags)
{
	return do_eventfd(count, flags, flags ? ENV_SC_EVENTFD2 : ENV_SC_EVENTFD);
}

int ivw_epoll_create(int size)
{
	int r;
	if (sc_fails(ENV_SC_EPOLL_CREATE))
		return -1;
	r = epoll_create(size);
	if (r >= 0)
		set_kind(r, ENV_FD_EPOLL);
	return r;
}

int ivw_epoll_create1(int flags)
{
	int r;
	if (sc_fails(ENV_SC_EPOLL_CREATE1))
		return -1;
	r = epoll_create1(flags);
	if (r >= 0)
		set_kind(r, ENV_FD_EPOLL);
	return r;
}

long ivw_syscall(long nr, ...)
{
	va_list ap;
	long a[6];
	int i;
	va_start(ap, nr);
	for (i = 0; i < 6; i++)
		a[i] = va_arg(ap, long);
	va_end(ap);
	switch (nr) {
#ifdef __NR_epoll_create1
	case __NR_epoll_create1:
		return ivw_epoll_create1((int)a[0]);
#endif
#ifdef __NR_eventfd2
	case __NR_eventfd2:
		return do_eventfd((unsigned)a[0], (int)a[1], ENV_SC_EVENTFD2);
#endif
#ifdef __NR_eventfd
	case __NR_eventfd:
		return do_eventfd((unsigned)a[0], 0, ENV_SC_EVENTFD);
#endif
#ifdef __NR_pipe2
	case __NR_pipe2:
		return ivw_pipe2((int *)a[0], (int)a[1]);
#endif
	default:
		return syscall(nr, a[0], a[1], a[2], a[3], a[4], a[5]);
	}
}

int ivw_epoll_ctl(int epfd, int op, int fd, struct epoll_event *ev)
{
	if (env_thr.point)
		env_thr.point("epoll_ctl", epfd);
	if (eintr("epoll_ctl", fd))
		return -1;
	return epoll_ctl(epfd, op, fd, ev);
}

int ivw_timerfd_create(int clockid, int flags)
{
	int r;
	(void)clockid;
	(void)flags;
	if (sc_fails(ENV_SC_TIMERFD_CREATE))
		return -1;
	r = eventfd(0, EFD_NONBLOCK | EFD_CLOEXEC);
	if (r >= 0) {
		set_kind(r, ENV_FD_TIMERFD);
		tfd[r].armed = 0;
	}
	return r;
}

int ivw_timerfd_settime(int fd, int flags, const struct itimerspec *val, struct itimerspec *old)
{
	uint64_t cnt;
	(void)old;
	if (env_fd_kind(fd) != ENV_FD_TIMERFD) {
		errno = EBADF;
		return -1;
	}
	if (!(flags & TFD_TIMER_ABSTIME))
		mc_broken("timerfd_settime without ABSTIME not emulated");
	/* the kernel resets the expiration count on every settime */
	if (read(fd, &cnt, 8) < 0 && errno != EAGAIN)
		mc_broken("timerfd stand-in read: %s", strerror(errno));
	if (val->it_value.tv_sec == 0 && val->it_value.tv_nsec == 0) {
		tfd[fd].armed = 0;
	} else {
		tfd[fd].armed = 1;
		tfd[fd].exp = val->it_value;
		tfd_fire_due();
	}
	return 0;
}

int ivw_inotify_init(void)
{
	int r;
	if (sc_fails(ENV_SC_INOTIFY_INIT))
		return -1;
	{
		/* fs.inotify.max_user_instances is a per-user limit shared with every other worker and check that
		 * happens to run; hitting it says nothing about the library, so wait for an instance to free up */
		int tries = 0;
		while ((r = inotify_init()) < 0 && errno == EMFILE && tries++ < 20000)
			usleep(500);
	}
	if (r >= 0)
		set_kind(r, ENV_FD_INOTIFY);
	return r;
}

int ivw_inotify_add_watch(int fd, const char *path, uint32_t mask)
{
	return inotify_add_watch(fd, path, mask);
}

int ivw_inotify_rm_watch(int fd, int wd)
{
	return inotify_rm_watch(fd, wd);
}

int ivw_open(const char *path, int flags, ...)
{
	va_list ap;
	int mode;
	va_start(ap, flags);
	mode = va_arg(ap, int);
	va_end(ap);
	{
		int r = open(path, flags, mode);
		if (r >= 0)
			set_kind(r, ENV_FD_OTHER);
		return r;
	}
}

int ivw_dup2(int a, int b)
{
	return dup2(a, b);
}

int (*env_execvp_hook)(const char *file, char *const argv[]);
int ivw_execvp(const char *file, char *const argv[])
{
	if (env_execvp_hook)
		return env_execvp_hook(file, argv);
	return execvp(file, argv);
}

/* ------------------------------------------------------------ waits */
struct env_wait_ops env_wait_ops;
unsigned long env_wait_count;

/* ThreadSanitizer's epoll_wait interceptor (unlike its poll / read ones) does not record the kernel's stores into the
 * caller's event array, so a result buffer shared between threads would go unnoticed: record them here */
extern void __tsan_write_range(void *addr, unsigned long size) __attribute__((weak));

int env_real_poll0(struct env_wait *w)
{
	int r;
	do {
		if (w->is_epoll)
			r = epoll_wait(w->epfd, w->ev, w->maxev, 0);
		else
			r = poll(w->pfds, w->nfds, 0);
	} while (r < 0 && errno == EINTR);
	if (w->is_epoll && r > 0 && __tsan_write_range)
		__tsan_write_range(w->ev, (unsigned long)r * sizeof(struct epoll_event));
	return r;
}

void env_compute_deadlines(struct env_wait *w)
{
	int i;
	if (w->timeout_ns >= 0) {
		w->deadline = env_now;
		w->deadline.tv_sec += w->timeout_ns / 1000000000LL;
		w->deadline.tv_nsec += w->timeout_ns % 1000000000LL;
		if (w->deadline.tv_nsec >= 1000000000L) {
			w->deadline.tv_sec++;
			w->deadline.tv_nsec -= 1000000000L;
		}
	}
	w->has_timerfd_deadline = 0;
	/* only timerfds that are members of this thread's wait set matter; in the
	 * single-threaded harnesses there is at most one */
	for (i = 0; i < MAXFD; i++)
		if (fdk[i] == ENV_FD_TIMERFD && tfd[i].armed) {
			if (!w->has_timerfd_deadline || env_ts_cmp(&tfd[i].exp, &w->timerfd_deadline) < 0)
				w->timerfd_deadline = tfd[i].exp;
			w->has_timerfd_deadline = 1;
		}
}

static int generic_wait(struct env_wait *w)
{
	int n;

	env_wait_count++;
	env_compute_deadlines(w);
	if (env_wait_ops.entry)
		env_wait_ops.entry(w);
	if (env_wait_ops.fault_eintr && env_wait_ops.fault_eintr(w)) {
		errno = EINTR;
		return -1;
	}
	for (;;) {
		n = env_real_poll0(w);
		if (n != 0 || w->timeout_ns == 0)
			break;
		if (!env_wait_ops.would_block)
			mc_broken("library would block and no would_block handler is installed");
		switch (env_wait_ops.would_block(w)) {
		case ENV_WB_EINTR:
			errno = EINTR;
			if (env_wait_ops.ret)
				env_wait_ops.ret(w, -1);
			return -1;
		case ENV_WB_TIMEOUT: {
			/* sleep until the earlier of the caller's deadline and the timerfd */
			struct timespec t;
			int have = 0;
			if (w->timeout_ns >= 0) {
				t = w->deadline;
				have = 1;
			}
			if (w->has_timerfd_deadline && (!have || env_ts_cmp(&w->timerfd_deadline, &t) < 0)) {
				t = w->timerfd_deadline;
				have = 1;
			}
			if (!have)
				mc_broken("ENV_WB_TIMEOUT on an unbounded wait");
			env_set_time(&t);
			n = env_real_poll0(w);
			goto out;
		}
		default:
			env_compute_deadlines(w);
			break;
		}
	}
out:
	if (n < 0)
		mc_broken("real poll failed: %s", strerror(errno));
	if (env_wait_ops.ret)
		env_wait_ops.ret(w, n);
	return n;
}

static int do_wait(struct env_wait *w)
{
	if (env_thr.wait)
		return env_thr.wait(w);
	return generic_wait(w);
}

int ivw_epoll_wait(int epfd, struct epoll_event *ev, int maxev, int timeout_ms)
{
	struct env_wait w;
	memset(&w, 0, sizeof(w));
	w.is_epoll = 1;
	w.epfd = epfd;
	w.ev = ev;
	w.maxev = maxev;
	w.timeout_ns = timeout_ms < 0 ? -1 : (long long)timeout_ms * 1000000LL;
	return do_wait(&w);
}

int ivw_epoll_pwait2(int epfd, struct epoll_event *ev, int maxev, const struct timespec *to, const sigset_t *ss)
{
	struct env_wait w;
	(void)ss;
	if (sc_fails(ENV_SC_EPOLL_PWAIT2))
		return -1;
	memset(&w, 0, sizeof(w));
	w.is_epoll = 1;
	w.epfd = epfd;
	w.ev = ev;
	w.maxev = maxev;
	w.ns_resolution = 1;
	w.timeout_ns = to ? (long long)to->tv_sec * 1000000000LL + to->tv_nsec : -1;
	return do_wait(&w);
}

int ivw_poll(struct pollfd *pfds, nfds_t nfds, int timeout_ms)
{
	struct env_wait w;
	memset(&w, 0, sizeof(w));
	w.pfds = pfds;
	w.nfds = nfds;
	w.timeout_ns = timeout_ms < 0 ? -1 : (long long)timeout_ms * 1000000LL;
	return do_wait(&w);
}

int ivw_ppoll(struct pollfd *pfds, nfds_t nfds, const struct timespec *to, const sigset_t *ss)
{
	struct env_wait w;
	(void)ss;
	if (sc_fails(ENV_SC_PPOLL))
		return -1;
	memset(&w, 0, sizeof(w));
	w.pfds = pfds;
	w.nfds = nfds;
	w.ns_resolution = 1;
	w.timeout_ns = to ? (long long)to->tv_sec * 1000000000LL + to->tv_nsec : -1;
	return do_wait(&w);
}

/* ------------------------------------------------- child processes */
int env_sim_procs;
struct env_proc env_procs[ENV_MAXPROC];
int env_nprocs;
void (*env_fork_hook)(struct env_proc *p);
void (*env_kill_hook)(struct env_proc *p, int sig);
int env_fork_real_helper;
static int next_pid = 7001;
static struct { struct env_proc *p; int status; } chq[64];
static int chqn;
static void (*atfork_prepare[8])(void), (*atfork_parent[8])(void), (*atfork_child[8])(void);
static int natfork;

struct env_proc *env_proc_find(int pid)
{
	int i;
	for (i = 0; i < env_nprocs; i++)
		if (env_procs[i].pid == pid)
			return &env_procs[i];
	return NULL;
}

static struct env_proc *proc_new(void)
{
	struct env_proc *p;
	if (env_nprocs >= ENV_MAXPROC)
		mc_broken("too many simulated processes");
	p = &env_procs[env_nprocs++];
	memset(p, 0, sizeof(*p));
	p->pid = next_pid++;
	p->state = PR_RUNNING;
	return p;
}

int env_proc_spawn_plain(void)
{
	return proc_new()->pid;
}

void env_proc_change(struct env_proc *p, int status)
{
	if (p->state == PR_ZOMBIE || p->state == PR_REAPED)
		mc_broken("status change on a dead simulated process");
	if (chqn >= 64)
		mc_broken("status queue overflow");
	chq[chqn].p = p;
	chq[chqn].status = status;
	chqn++;
	p->nqueue++;
	if (WIFEXITED(status) || WIFSIGNALED(status))
		p->state = PR_ZOMBIE;
	else if (WIFSTOPPED(status))
		p->state = PR_STOPPED;
	else
		p->state = PR_RUNNING;
}

/* fork() as an application linked against the library would experience it:
 * the library's atfork handlers run (they are recorded here, not registered
 * with libc, so that the explorer's own forks stay clear of them) */
pid_t env_fork_like_app(void)
{
	int i;
	pid_t r;
	for (i = natfork - 1; i >= 0; i--)
		if (atfork_prepare[i])
			atfork_prepare[i]();
	r = fork();
	for (i = 0; i < natfork; i++) {
		if (r == 0 && atfork_child[i])
			atfork_child[i]();
		if (r != 0 && atfork_parent[i])
			atfork_parent[i]();
	}
	return r;
}

pid_t ivw_fork(void)
{
	struct env_proc *p;
	int i;
	if (env_thr.point)
		env_thr.point("fork", 0);
	if (!env_sim_procs)
		return env_fork_like_app();
	for (i = natfork - 1; i >= 0; i--)
		if (atfork_prepare[i])
			atfork_prepare[i]();
	p = proc_new();
	if (env_fork_real_helper) {
		/* run the library's child-side code in a real helper; the helper ends in
		 * the execvp hook or in exit() and is reaped synchronously here */
		sigset_t blk, old;
		pid_t rp;
		int st;
		sigemptyset(&blk);
		sigaddset(&blk, SIGCHLD);
		pthread_sigmask(SIG_BLOCK, &blk, &old);
		rp = fork();
		if (rp == 0) {
			for (i = 0; i < natfork; i++)
				if (atfork_child[i])
					atfork_child[i]();
			return 0;
		}
		if (rp < 0)
			mc_broken("real helper fork failed");
		while (waitpid(rp, &st, 0) < 0 && errno == EINTR)
			;
		{
			/* swallow the real SIGCHLD */
			struct timespec z = { 0, 0 };
			while (sigtimedwait(&blk, NULL, &z) > 0)
				;
		}
		pthread_sigmask(SIG_SETMASK, &old, NULL);
		if (!WIFEXITED(st) || WEXITSTATUS(st) != 77)
			mc_broken("child-side helper ended with status 0x%x", st);
	}
	if (env_fork_hook)
		env_fork_hook(p);
	for (i = 0; i < natfork; i++)
		if (atfork_parent[i])
			atfork_parent[i]();
	return p->pid;
}

pid_t ivw_wait4(pid_t pid, int *status, int options, struct rusage *ru)
{
	int i, alive = 0;
	if (env_thr.point)
		env_thr.point("wait4", 0);
	if (!env_sim_procs)
		return wait4(pid, status, options, ru);
	if (pid != -1 || !(options & WNOHANG))
		mc_broken("wait4 pattern not emulated");
	if (chqn) {
		struct env_proc *p = chq[0].p;
		int st = chq[0].status;
		memmove(&chq[0], &chq[1], (chqn - 1) * sizeof(chq[0]));
		chqn--;
		p->nqueue--;
		if (status)
			*status = st;
		if (ru)
			memset(ru, 0, sizeof(*ru));
		if (WIFEXITED(st) || WIFSIGNALED(st)) {
			p->state = PR_REAPED;
			p->reaped_dead = 1;
		}
		return p->pid;
	}
	for (i = 0; i < env_nprocs; i++)
		if (env_procs[i].state == PR_RUNNING || env_procs[i].state == PR_STOPPED)
			alive++;
	if (!alive) {
		errno = ECHILD;
		return -1;
	}
	return 0;
}

int ivw_kill(pid_t pid, int sig)
{
	struct env_proc *p;
	if (env_thr.point)
		env_thr.point("kill", pid);
	if (!env_sim_procs)
		return kill(pid, sig);
	p = env_proc_find(pid);
	if (!p)
		return kill(pid, sig);
	if (p->reaped_dead) {
		p->kills_after_reap++;
		errno = ESRCH;
		return -1;
	}
	if (p->nsig < 16) {
		p->sigs[p->nsig] = sig;
		p->sigtime[p->nsig] = env_now;
		p->nsig++;
	}
	if (p->state == PR_ZOMBIE)
		return 0;       /* signalling a zombie succeeds and does nothing */
	if (env_kill_hook)
		env_kill_hook(p, sig);
	return 0;
}

/* ---------------------------------------------------------- signals */
int ivw_sigaction(int sig, const struct sigaction *sa, struct sigaction *old)
{
	return sigaction(sig, sa, old);
}

typedef void (*sighandler_fn)(int);
sighandler_fn ivw_signal(int sig, sighandler_fn h)
{
	return signal(sig, h);
}

int ivw_pthread_sigmask(int how, const sigset_t *set, sigset_t *old)
{
	int r = pthread_sigmask(how, set, old);
	if (env_thr.sigmask_changed && set) {
		sigset_t now;
		pthread_sigmask(SIG_SETMASK, NULL, &now);
		env_thr.sigmask_changed(&now);
	}
	return r;
}

/* ---------------------------------------------------------- threads */
static int real_create(pthread_t *t, const pthread_attr_t *a, void *(*fn)(void *), void *arg) { return pthread_create(t, a, fn, arg); }
static void *real_getspecific(pthread_key_t k) { return pthread_getspecific(k); }

struct env_thr_ops env_thr = {
	.mutex_lock = pthread_mutex_lock,
	.mutex_unlock = pthread_mutex_unlock,
	.mutex_init = pthread_mutex_init,
	.mutex_destroy = pthread_mutex_destroy,
	.spin_lock = pthread_spin_lock,
	.spin_unlock = pthread_spin_unlock,
	.create = real_create,
	.join = pthread_join,
	.detach = pthread_detach,
	.key_create = pthread_key_create,
	.getspecific = real_getspecific,
	.setspecific = pthread_setspecific,
};

int ivw_pthread_mutex_init(pthread_mutex_t *m, const pthread_mutexattr_t *a) { return env_thr.mutex_init(m, a); }
int ivw_pthread_mutex_destroy(pthread_mutex_t *m) { return env_thr.mutex_destroy(m); }
int ivw_pthread_mutex_lock(pthread_mutex_t *m) { return env_thr.mutex_lock(m); }
int ivw_pthread_mutex_unlock(pthread_mutex_t *m) { return env_thr.mutex_unlock(m); }
int ivw_pthread_spin_init(pthread_spinlock_t *l, int ps) { if (env_thr.lock_reinit) env_thr.lock_reinit((void *)l); return pthread_spin_init(l, ps); }
int ivw_pthread_spin_lock(pthread_spinlock_t *l) { return env_thr.spin_lock(l); }
int ivw_pthread_spin_unlock(pthread_spinlock_t *l) { return env_thr.spin_unlock(l); }
int ivw_pthread_spin_trylock(pthread_spinlock_t *l) { return pthread_spin_trylock(l); }
int ivw_pthread_create(pthread_t *t, const pthread_attr_t *a, void *(*fn)(void *), void *arg) { return env_thr.create(t, a, fn, arg); }
int env_joined_threads;
int ivw_pthread_join(pthread_t t, void **r) { env_joined_threads++; return env_thr.join(t, r); }
int ivw_pthread_detach(pthread_t t) { return env_thr.detach(t); }
int ivw_pthread_once(pthread_once_t *o, void (*fn)(void)) { return pthread_once(o, fn); }
int ivw_pthread_key_create(pthread_key_t *k, void (*d)(void *)) { return env_thr.key_create(k, d); }
void *ivw_pthread_getspecific(pthread_key_t k) { return env_thr.getspecific(k); }
int ivw_pthread_setspecific(pthread_key_t k, const void *v) { return env_thr.setspecific(k, v); }
pthread_t ivw_pthread_self(void) { return pthread_self(); }

int ivw_pthread_atfork(void (*prepare)(void), void (*parent)(void), void (*child)(void))
{
	if (natfork < 8) {
		atfork_prepare[natfork] = prepare;
		atfork_parent[natfork] = parent;
		atfork_child[natfork] = child;
		natfork++;
	}
	return 0;
}

/* sanitizer defaults: make reports fatal with a recognisable exit code */
const char *__asan_default_options(void)
{
	return "detect_leaks=0:exitcode=44:abort_on_error=0:handle_abort=0:allocator_may_return_null=1:detect_stack_use_after_return=0";
}
const char *__ubsan_default_options(void)
{
	return "halt_on_error=1:exitcode=44:print_stacktrace=1";
}
const char *__tsan_default_options(void)
{
	return "exitcode=44:halt_on_error=0:second_deadlock_stack=1:report_signal_unsafe=0";
}

/* C14 allows exactly these idempotent one-way feature-detection flags */
const char *__tsan_default_suppressions(void)
{
	return "race:^inited$\nrace:^epoll_support$\nrace:^epoll_pwait2_support$\nrace:^eventfd_in_use$\nrace:^pipe2_support$\n"
	       "race:^splice_available$\nrace:^iv_event_use_event_raw$\nrace:^clock_source$\nrace:^method$\n";
}
