/*
 * h_work: iv_work pools (properties C12, C13; C14 race runs).
 * Owner (thread 0) creates a pool and runs iv_main; the submission program,
 * the point at which the pool is released (iv_work_pool_put, after which the
 * caller's pool struct is freed at once) and max_threads are configuration
 * choices; all interleavings of submitter, workers and owner within the
 * preemption bound are enumerated, with virtual time crossing the 10 s idle
 * timeout.
 */
#ifndef _GNU_SOURCE
#define _GNU_SOURCE
#endif
#include <errno.h>
#include <stdio.h>
#include <stdlib.h>
#include <string.h>
#include <unistd.h>
#include <iv.h>
#include <iv_work.h>
#include "mc.h"
#include "env.h"
#include "mcsched.h"

#define NW 4
struct item {
	struct iv_work_item *p;
	int submitted, work_started, work_done, completed;
	int work_thread;
	int id;
};
static struct item W[NW];
static struct iv_work_pool *pool;
static int pool_put_done, max_threads;
static int running_work, max_running_seen;
static int thread_starts[SCHED_MAXT], thread_stops[SCHED_MAXT];
static int prog, put_at;
static struct iv_timer t10, t25, t0;
static long allocs0;
static int nsubmitted, ncompleted;
static int cont_in_progress;

enum { PUT_END, PUT_BEFORE_SUBMIT, PUT_AFTER_SETUP, PUT_FIRST_COMPLETION, PUT_TIMER10, NPUT };
static const char *putname[NPUT] = { "end", "before-submit", "after-setup-submits", "first-completion", "timer-10s" };
enum { PR_BURST1, PR_BURST2, PR_BURST3, PR_FROM_COMPLETION, PR_CONTINUATION, PR_AT_10S, PR_AT_25S, PR_CONT_AND_OWNER, PR_CONT_AND_TIMER, NPROG };
static const char *progname[NPROG] = { "burst1", "burst2", "burst3", "submit-from-completion", "continuation-from-work",
	"second-submit-at-10s", "second-submit-at-25s", "continuation+owner-submit", "continuation+owner-submit-from-timer" };

static void work_fn(void *_it);
static void completion_fn(void *_it);

static void do_put(const char *where)
{
	if (pool_put_done)
		return;
	if (cont_in_progress) {
		/* a worker is inside iv_work_pool_submit_continuation() with our pool handle: releasing
		 * now would be the application's race; release at the end instead */
		mc_obs("O:put-deferred");
		return;
	}
	mc_obs("O:put(%s)", where);
	/* from the moment the owner decides to release the pool nobody submits any more (a continuation
	 * racing with the release is the application's bug, see DESIGN.md C13 "out of scope") */
	pool_put_done = 1;
	iv_work_pool_put(pool);
	/* the caller's structure may be reused immediately */
	memset(pool, 0xbe, sizeof(*pool));
	free(pool);
	pool = NULL;
}

static void submit(int i, int continuation, const char *who)
{
	struct item *it = &W[i];
	if (pool_put_done || it->submitted)
		return;
	it->p = malloc(sizeof(*it->p));
	memset(it->p, 0xbe, sizeof(*it->p));
	IV_WORK_ITEM_INIT(it->p);
	it->p->cookie = it;
	it->p->work = work_fn;
	it->p->completion = completion_fn;
	it->submitted = 1;
	it->id = i;
	nsubmitted++;
	mc_obs("%s:submit-W%d%s", who, i, continuation ? "(cont)" : "");
	if (continuation)
		iv_work_pool_submit_continuation(pool, it->p);
	else
		iv_work_pool_submit_work(pool, it->p);
}

static void all_done_check(void)
{
	if (ncompleted == nsubmitted && !pool_put_done) {
		int more = 0;
		if ((prog == PR_AT_10S && !W[1].submitted) || (prog == PR_AT_25S && !W[1].submitted))
			more = 1;
		if (prog == PR_CONT_AND_TIMER && iv_timer_registered(&t0))
			more = 1;
		if (put_at == PUT_TIMER10 && iv_timer_registered(&t10))
			more = 1;       /* the timer will release the pool */
		if (!more)
			do_put("end");
	}
}

static void work_fn(void *_it)
{
	struct item *it = _it;
	int me = sched_self();
	if (me == 0)
		mc_fail("work-thread", "work function of W%d ran in the owner thread", it->id);
	if (!it->submitted || it->work_started)
		mc_fail("work-twice", "work function of W%d ran %s", it->id, it->work_started ? "twice" : "without being submitted");
	it->work_started = 1;
	it->work_thread = me;
	running_work++;
	if (running_work > max_running_seen)
		max_running_seen = running_work;
	if (running_work > max_threads)
		mc_fail("work-concurrency", "%d work functions running at once, pool maximum is %d", running_work, max_threads);
	if (!thread_starts[me] || thread_stops[me])
		mc_fail("work-hooks", "work ran in thread %d outside its thread_start/thread_stop bracket", me);
	mc_mark_callback();
	mc_obs("T%d:work-W%d", me, it->id);
	sched_yield_point("work");
	if ((prog == PR_CONTINUATION || prog == PR_CONT_AND_OWNER || prog == PR_CONT_AND_TIMER) && it->id == 0 && !pool_put_done) {
		cont_in_progress = 1;
		submit(2, 1, "T");
		cont_in_progress = 0;
		sched_yield_point("work-after-cont");
	}
	running_work--;
	it->work_done = 1;
}

static void completion_fn(void *_it)
{
	struct item *it = _it;
	if (sched_self() != 0)
		mc_fail("work-thread", "completion of W%d ran in thread %d, not in the owner", it->id, sched_self());
	if (!it->work_done)
		mc_fail("work-order", "completion of W%d ran before its work function returned", it->id);
	if (it->completed)
		mc_fail("work-twice", "completion of W%d ran twice", it->id);
	it->completed = 1;
	ncompleted++;
	mc_obs("O:done-W%d", it->id);
	memset(it->p, 0xbe, sizeof(*it->p));
	free(it->p);
	it->p = NULL;
	if (prog == PR_FROM_COMPLETION && it->id == 0)
		submit(1, 0, "O");
	if (put_at == PUT_FIRST_COMPLETION)
		do_put("first-completion");
	all_done_check();
}

static void hook_start(void *cookie)
{
	int me = sched_self();
	if (cookie != (void *)&W[0])
		mc_fail("work-hooks", "thread_start called with a wrong cookie");
	if (thread_starts[me])
		mc_fail("work-hooks", "thread_start called twice in thread %d", me);
	thread_starts[me] = 1;
	mc_obs("T%d:start", me);
	if (me >= 3 && mc_arg_int("dbg_t3", 0))
		mc_fail("dbg", "third thread started");
	{
		/* more live pool threads than max_threads while more than max_threads items still have
		 * their work function ahead of them: some schedule runs too many at once */
		int i, live = 0, unfinished = 0;
		for (i = 1; i < sched_nthreads(); i++)
			live += !sched_finished(i) && !thread_stops[i];   /* created by the pool and not yet stopped */
		for (i = 0; i < NW; i++)
			unfinished += W[i].submitted && !W[i].work_done;
		if (live > max_threads && unfinished > max_threads)
			mc_fail("work-concurrency", "%d pool threads are live with %d items whose work function has not returned; pool maximum is %d",
				live, unfinished, max_threads);
	}
}

static void hook_stop(void *cookie)
{
	int me = sched_self();
	if (cookie != (void *)&W[0])
		mc_fail("work-hooks", "thread_stop called with a wrong cookie");
	if (!thread_starts[me] || thread_stops[me])
		mc_fail("work-hooks", "thread_stop in thread %d %s", me, thread_stops[me] ? "called twice" : "without thread_start");
	thread_stops[me] = 1;
	mc_obs("T%d:stop", me);
}

static void t10_cb(void *dummy)
{
	(void)dummy;
	mc_obs("O:t+10s");
	if (prog == PR_AT_10S)
		submit(1, 0, "O");
	if (put_at == PUT_TIMER10)
		do_put("timer-10s");
	all_done_check();
}

static void t0_cb(void *dummy)
{
	(void)dummy;
	mc_obs("O:t+0");
	sched_yield_point("owner-timer");
	submit(1, 0, "O");
	all_done_check();
}

static void t25_cb(void *dummy)
{
	(void)dummy;
	mc_obs("O:t+25s");
	if (prog == PR_AT_25S)
		submit(1, 0, "O");
	all_done_check();
}

static int create_faults_left;
static int create_fault(void)
{
	int i, live = 0;
	/* thread creation may fail transiently (EAGAIN), but only while another worker exists to take the work */
	for (i = 1; i < sched_nthreads(); i++)
		live += !sched_finished(i) && !thread_stops[i];
	if (!create_faults_left || !live)
		return 0;
	if (mc_choose(2, MC_FAULT, "pthread_create-EAGAIN")) {
		create_faults_left--;
		mc_obs("pthread_create=EAGAIN");
		return EAGAIN;
	}
	return 0;
}

static int quiescent(void)
{
	int i;
	for (i = 0; i < NW; i++)
		if (W[i].submitted && !W[i].completed)
			mc_fail("work-lost", "all threads blocked for good but W%d (work started %d, returned %d) never completed", i, W[i].work_started, W[i].work_done);
	mc_fail("stuck", "all threads blocked for good: pool released %d, %d of %d items completed, iv_main did not return", pool_put_done, ncompleted, nsubmitted);
}

static int parse_list(const char *s, int *out, int max)
{
	int n = 0;
	while (*s && n < max) {
		char *e;
		long a = strtol(s, &e, 10), b;
		if (e == s) break;
		b = a;
		if (*e == '-') b = strtol(e + 1, &e, 10);
		for (; a <= b && n < max; a++) out[n++] = a;
		s = e;
		if (*s == ',') s++;
	}
	return n;
}

static void exec_one(void)
{
	int pl[16], np, ul[8], nu, ml[4], nm, tl[4], nt, method, i;
	static const char *excl[4] = { "", "epoll-timerfd", "epoll-timerfd epoll", "epoll-timerfd epoll ppoll" };

	env_init();
	sched_init();
	sched_on_quiescence = quiescent;
	sched_fault_eintr = mc_arg_int("eintr", 0);
	sched_max_points = mc_arg_int("maxpoints", 5000);
	create_faults_left = mc_arg_int("create_faults", 0);
	if (create_faults_left)
		sched_create_fault = create_fault;
	np = parse_list(mc_arg("progs", "0-8"), pl, 16);
	nu = parse_list(mc_arg("puts", "0-4"), ul, 8);
	nm = parse_list(mc_arg("methods", "0,2"), ml, 4);
	nt = parse_list(mc_arg("maxthreads", "1-2"), tl, 4);
	method = ml[mc_choose(nm, MC_CONFIG, "method")];
	max_threads = tl[mc_choose(nt, MC_CONFIG, "max_threads")];
	prog = pl[mc_choose(np, MC_CONFIG, "prog")];
	put_at = ul[mc_choose(nu, MC_CONFIG, "put_at")];
	env_exclude_methods = excl[method];
	mc_obs("m%d max=%d prog=%s put=%s", method, max_threads, progname[prog], putname[put_at]);

	allocs0 = env_lib_allocs_live;
	iv_init();
	pool = malloc(sizeof(*pool));
	memset(pool, 0xbe, sizeof(*pool));
	IV_WORK_POOL_INIT(pool);
	pool->max_threads = max_threads;
	pool->cookie = &W[0];
	pool->thread_start = hook_start;
	pool->thread_stop = hook_stop;
	if (iv_work_pool_create(pool) != 0)
		mc_fail("try-failed", "iv_work_pool_create failed");

	IV_TIMER_INIT(&t10);
	IV_TIMER_INIT(&t25);
	if (prog == PR_AT_10S || put_at == PUT_TIMER10) {
		t10.expires = env_now;
		t10.expires.tv_sec += 10;
		t10.handler = t10_cb;
		iv_timer_register(&t10);
	}
	if (prog == PR_AT_25S) {
		t25.expires = env_now;
		t25.expires.tv_sec += 25;
		t25.handler = t25_cb;
		iv_timer_register(&t25);
	}
	IV_TIMER_INIT(&t0);
	if (prog == PR_CONT_AND_TIMER) {
		t0.expires = env_now;
		t0.handler = t0_cb;
		iv_timer_register(&t0);
	}
	if (put_at == PUT_BEFORE_SUBMIT)
		do_put("before-submit");
	switch (prog) {
	case PR_BURST3: submit(2, 0, "O");      /* fall through */
	case PR_BURST2: submit(1, 0, "O");      /* fall through */
	default: submit(0, 0, "O"); break;
	}
	if (prog == PR_CONT_AND_OWNER)
		submit(1, 0, "O");
	if (put_at == PUT_AFTER_SETUP)
		do_put("after-setup-submits");
	if (nsubmitted == 0 && !pool_put_done)
		do_put("nothing-submitted");
	mc_obs("O:main");
	iv_main();
	mc_obs("O:ret");
	for (i = 0; i < NW; i++)
		if (W[i].submitted && !W[i].completed)
			mc_fail("work-lost", "iv_main returned but W%d was submitted%s and never completed", i, pool_put_done ? " before the pool was released" : "");
	if (!pool_put_done)
		mc_fail("main-return-early", "iv_main returned while the pool was still held");
	for (i = 1; i < sched_nthreads(); i++) {
		if (!sched_finished(i))
			mc_fail("thread-alive", "iv_main returned while pool thread %d has not finished", i);
		if (thread_starts[i] != 1 || thread_stops[i] != 1)
			mc_fail("work-hooks", "pool thread %d: thread_start %d times, thread_stop %d times", i, thread_starts[i], thread_stops[i]);
	}
	if (sched_nthreads() - 1 > 0 && env_joined_threads != sched_nthreads() - 1)
		mc_fail("thread-join", "%d pool threads were created but %d were joined", sched_nthreads() - 1, env_joined_threads);
	iv_deinit();
	if (env_lib_allocs_live != allocs0)
		mc_fail("leak-mem", "%ld library allocations live after iv_deinit", env_lib_allocs_live - allocs0);
	if (env_lib_fds_open()) {
		char b[200];
		env_lib_fds_list(b, sizeof(b));
		mc_fail("leak-fd", "library descriptors left open after iv_deinit: %s", b);
	}
	mc_done();
}

int main(int argc, char **argv)
{
	static const struct mc_harness h = { .name = "h_work", .exec = exec_one, .timeout_s = 30 };
	return mc_main(argc, argv, &h);
}
