/*
 * h_theap: exhaustive checks of the timer store of /repo/src/iv_timer.c
 * (property C05, and the allocation side of C18).
 *
 *  part "closure":  explicit-state BFS over heap states (heap array of
 *                   expiry ranks; timer structs are symmetric so slot
 *                   identity is abstracted away) from the empty heap, with
 *                   operations register(key), unregister(position); every
 *                   reachable state with <= N timers over K keys is
 *                   expanded once.  Each state is instantiated directly in
 *                   the library's own data structure (small populations live
 *                   in the first leaf), each operation is the real
 *                   iv_timer_register / iv_timer_unregister, and from each
 *                   state a full drain through iv_main() is checked too.
 *  part "handlers": from every reachable state with <= M timers: during the
 *                   drain the i-th handler unregisters the j-th pending
 *                   timer (already expired: the index==0 branch) or a
 *                   not-yet-expired one, or registers a fresh timer.
 *  part "boundary": real prefill to n in {126..129, 16382..16385}
 *                   (ascending / descending / constant / zig-zag keys), then
 *                   every operation sequence of depth <= D over a menu of
 *                   victims (root, last, first of last leaf, interior whose
 *                   replacement moves up / down) and new keys (min, max,
 *                   equal to root), full invariant walk after every
 *                   operation, drain at the end, iv_deinit + leak check.
 */
#ifndef _GNU_SOURCE
#define _GNU_SOURCE
#endif
#include <stdio.h>
#include <stdlib.h>
#include <string.h>
#include <stdint.h>
#include <unistd.h>
#include <signal.h>
#include <sys/mman.h>
#include <sys/wait.h>
#include <time.h>
#include <iv.h>
#include "iv_private.h"

const char *__asan_default_options(void) { return "detect_leaks=1:exitcode=44:abort_on_error=0"; }

#define MAXT 17000
#define FUTURE_SEC 4000000000L   /* never expires */

struct tslot {
	struct iv_timer *t;     /* heap allocated, freed at unregister / on entry */
	int key;
	int id;
	int fired;
	int registered;
};

static struct tslot slots[MAXT + 64];
static int nslots;
static char failmsg[1024];
static char fatalmsg[512];
static int fire_log[MAXT + 64], nfire;
static int last_fired_key;
static int farkey;          /* closure: this key value stands for a never-expiring, very distant expiry */

struct result {
	unsigned long states, ops, drains, fired;
	int failed;     /* 1 violation, -1 deadline */
	char rule[64];
	char msg[1400];
	char replay[1024];
	char sample[4][200];
	int nsample;
};
static struct result *R;
static struct result *me;
static char curdesc[1024];

static void fatal_handler(const char *msg)
{
	snprintf(fatalmsg, sizeof(fatalmsg), "%s", msg);
	if (me && !me->failed) {
		me->failed = 1;
		snprintf(me->rule, sizeof(me->rule), "lib-fatal");
		snprintf(me->msg, sizeof(me->msg), "iv_fatal: %s on %s", msg, curdesc);
		snprintf(me->replay, sizeof(me->replay), "%s", curdesc);
	}
	_exit(0);
}

static void report(const char *rule)
{
	if (me->failed)
		return;
	me->failed = 1;
	snprintf(me->rule, sizeof(me->rule), "%s", rule);
	snprintf(me->msg, sizeof(me->msg), "%s on %s", failmsg, curdesc);
	snprintf(me->replay, sizeof(me->replay), "%s", curdesc);
}

/* ---------------- read-only view of the radix tree */
static struct iv_timer_ *peek_node(struct iv_state *st, int index)
{
	struct iv_timer_ratnode *r = st->ratnode.timer_root;
	int i;
	if (index >> ((st->rat_depth + 1) * IV_TIMER_SPLIT_BITS))
		return NULL;
	for (i = st->rat_depth; i > 0; i--) {
		int bits = (index >> (i * IV_TIMER_SPLIT_BITS)) & (IV_TIMER_SPLIT_NODES - 1);
		if (r->child[bits] == NULL)
			return NULL;
		r = r->child[bits];
	}
	return r->child[index & (IV_TIMER_SPLIT_NODES - 1)];
}

static int ts_gt(const struct timespec *a, const struct timespec *b)
{
	return a->tv_sec > b->tv_sec || (a->tv_sec == b->tv_sec && a->tv_nsec > b->tv_nsec);
}

static int min_depth(int n)
{
	int d = 0;
	while (n >> ((d + 1) * IV_TIMER_SPLIT_BITS))
		d++;
	return d;
}

/* full invariant walk; expect = number of registered timers in the model */
static int check_heap(int expect)
{
	struct iv_state *st = iv_get_state();
	int n = st->num_timers, i, cap;

	if (n != expect) {
		snprintf(failmsg, sizeof(failmsg), "num_timers %d, model has %d", n, expect);
		return -1;
	}
	if (st->rat_depth != min_depth(n)) {
		snprintf(failmsg, sizeof(failmsg), "radix depth %d for %d timers (minimal is %d)", st->rat_depth, n, min_depth(n));
		return -1;
	}
	for (i = 1; i <= n; i++) {
		struct iv_timer_ *t = peek_node(st, i);
		if (t == NULL) {
			snprintf(failmsg, sizeof(failmsg), "heap slot %d of %d is empty", i, n);
			return -1;
		}
		if (t->index != i) {
			snprintf(failmsg, sizeof(failmsg), "timer at heap slot %d has back-index %d", i, t->index);
			return -1;
		}
		if (i > 1) {
			struct iv_timer_ *p = peek_node(st, i / 2);
			if (ts_gt(&p->expires, &t->expires)) {
				snprintf(failmsg, sizeof(failmsg), "heap order violated between slot %d and parent %d (n=%d)", i, i / 2, n);
				return -1;
			}
		}
	}
	/* slots beyond n must be empty (within allocated capacity, bounded look-ahead) */
	cap = 1 << ((st->rat_depth + 1) * IV_TIMER_SPLIT_BITS);
	for (i = n + 1; i < cap && i <= n + 300; i++)
		if (peek_node(st, i) != NULL) {
			snprintf(failmsg, sizeof(failmsg), "slot %d beyond population %d not empty", i, n);
			return -1;
		}
	/* every model timer registered / back-index points at itself */
	return 0;
}

static int check_slots(void)
{
	struct iv_state *st = iv_get_state();
	int i;
	for (i = 0; i < nslots; i++) {
		struct tslot *s = &slots[i];
		if (!s->registered)
			continue;
		if (!iv_timer_registered(s->t)) {
			snprintf(failmsg, sizeof(failmsg), "timer id %d (key %d) no longer reported registered", s->id, s->key);
			return -1;
		}
		{
			struct iv_timer_ *t = (struct iv_timer_ *)s->t;
			if (t->index < 1 || t->index > st->num_timers || peek_node(st, t->index) != t) {
				snprintf(failmsg, sizeof(failmsg), "timer id %d (key %d) has index %d not pointing at itself", s->id, s->key, t->index);
				return -1;
			}
		}
	}
	return 0;
}

/* ---------------- handlers */
static int drain_expect;                 /* quit after this many fires */
static int act_at = -1, act_kind, act_arg, act_key;    /* handler program for part "handlers" */
static int order_violation;

static struct tslot *new_slot(int key)
{
	struct tslot *s = &slots[nslots];
	s->id = nslots++;
	s->key = key;
	s->fired = 0;
	s->registered = 0;
	s->t = malloc(sizeof(struct iv_timer));
	memset(s->t, 0xbe, sizeof(struct iv_timer));
	IV_TIMER_INIT(s->t);
	return s;
}

static void set_expiry(struct tslot *s)
{
	if (farkey && s->key == farkey) {
		s->t->expires.tv_sec = 3000000000L;     /* more than 2^31 s from the others */
		s->t->expires.tv_nsec = 0;
	} else if (s->key >= 1000000) {        /* future key: never expires */
		s->t->expires.tv_sec = FUTURE_SEC;
		s->t->expires.tv_nsec = s->key - 1000000;
	} else {
		s->t->expires.tv_sec = 0;
		s->t->expires.tv_nsec = s->key;
	}
}

static void timer_handler(void *cookie);

static void reg_slot(struct tslot *s)
{
	set_expiry(s);
	s->t->cookie = s;
	s->t->handler = timer_handler;
	iv_timer_register(s->t);
	s->registered = 1;
}

static void unreg_slot(struct tslot *s)
{
	iv_timer_unregister(s->t);
	s->registered = 0;
	memset(s->t, 0xbe, sizeof(struct iv_timer));
	free(s->t);
	s->t = NULL;
}

static void timer_handler(void *cookie)
{
	struct tslot *s = cookie;
	int pos = nfire;

	if (!s->registered || s->fired) {
		snprintf(failmsg, sizeof(failmsg), "timer id %d (key %d) fired while %s", s->id, s->key,
			 s->fired ? "already fired" : "unregistered");
		order_violation = 1;
	}
	if (iv_timer_registered(s->t)) {
		snprintf(failmsg, sizeof(failmsg), "timer id %d still reported registered inside its handler", s->id);
		order_violation = 1;
	}
	s->fired = 1;
	s->registered = 0;
	fire_log[nfire++] = s->id;
	me->fired++;
	/* one-shot: may be freed on entry */
	memset(s->t, 0xbe, sizeof(struct iv_timer));
	free(s->t);
	s->t = NULL;

	if (pos == act_at) {
		if (act_kind == 1) {            /* unregister the timer with id act_arg */
			struct tslot *v = &slots[act_arg];
			if (v->registered)
				unreg_slot(v);
		} else if (act_kind == 2) {     /* register a fresh timer */
			struct tslot *v = new_slot(act_key);
			reg_slot(v);
			drain_expect++;
		}
	}
	if (nfire >= drain_expect)
		iv_quit();
}

/* drain: run iv_main until all expected expired timers fired; check order
 * against the model: non-decreasing expiry among timers registered before
 * the round (new registrations run in a later round). */
static int drain(int expect_fires)
{
	struct sigaction sa;
	nfire = 0;
	order_violation = 0;
	drain_expect = expect_fires;
	(void)sa;
	if (expect_fires > 0) {
		alarm(20);
		iv_main();
		alarm(0);
	}
	me->drains++;
	if (order_violation)
		return -1;
	return 0;
}

/* ---------------- closure part */
#define CL_MAXN 16
struct cstate { unsigned char n; unsigned char k[CL_MAXN]; };

static void instantiate(const struct cstate *c)
{
	/* place the state directly into the (empty) library heap */
	struct iv_state *st = iv_get_state();
	int i;
	nslots = 0;
	for (i = 0; i < c->n; i++) {
		struct tslot *s = new_slot(c->k[i]);
		struct iv_timer_ *t = (struct iv_timer_ *)s->t;
		set_expiry(s);
		s->t->cookie = s;
		s->t->handler = timer_handler;
		t->index = i + 1;
		st->ratnode.first_leaf.child[i + 1] = t;
		s->registered = 1;
	}
	st->num_timers = c->n;
	st->numobjs += c->n;
}

static void extract(struct cstate *c)
{
	struct iv_state *st = iv_get_state();
	int i;
	c->n = st->num_timers;
	memset(c->k, 0, sizeof(c->k));
	for (i = 0; i < c->n && i < CL_MAXN; i++) {
		struct iv_timer_ *t = st->ratnode.first_leaf.child[i + 1];
		c->k[i] = ((struct tslot *)t->cookie)->key;
	}
}

static void clear_heap(void)
{
	int i;
	for (i = 0; i < nslots; i++)
		if (slots[i].registered)
			unreg_slot(&slots[i]);
	nslots = 0;
}

static void desc_state(const struct cstate *c, char *buf)
{
	int i;
	char *p = buf;
	p += sprintf(p, "[");
	for (i = 0; i < c->n; i++)
		p += sprintf(p, "%s%d", i ? " " : "", c->k[i]);
	sprintf(p, "]");
}

struct hent { struct cstate s; };
static struct cstate *cq;
static size_t cqh, cqt, cqcap;
static uint64_t *cseen;
static size_t cseen_cap;

static uint64_t chash(const struct cstate *c)
{
	uint64_t h = 1469598103934665603ULL;
	int i;
	h ^= c->n; h *= 1099511628211ULL;
	for (i = 0; i < c->n; i++) { h ^= c->k[i]; h *= 1099511628211ULL; }
	h ^= h >> 31; h *= 0xbf58476d1ce4e5b9ULL; h ^= h >> 29;
	return h ? h : 1;
}

static int cseen_add(const struct cstate *c)
{
	/* 64-bit fingerprints of at most ~1e6 tiny states: collision probability
	 * < 1e-7; a collision could only hide a state, so it is reported in the
	 * evidence as an assumption. */
	uint64_t h = chash(c), i = h & (cseen_cap - 1);
	while (cseen[i]) {
		if (cseen[i] == h)
			return 0;
		i = (i + 1) & (cseen_cap - 1);
	}
	cseen[i] = h;
	return 1;
}

static void cq_push(const struct cstate *c)
{
	if (cqt == cqcap) {
		cqcap *= 2;
		cq = realloc(cq, cqcap * sizeof(*cq));
	}
	cq[cqt++] = *c;
}

/* check drain order against sorted model */
static int count_expiring(const struct cstate *c)
{
	int i, n = 0;
	for (i = 0; i < c->n; i++)
		n += !(farkey && c->k[i] == farkey);
	return n;
}

static int check_drain_sorted(const struct cstate *c)
{
	int i, last = -1;
	if (nfire != count_expiring(c)) {
		snprintf(failmsg, sizeof(failmsg), "%d of %d expired timers fired", nfire, count_expiring(c));
		return -1;
	}
	for (i = 0; i < nfire; i++) {
		int key = slots[fire_log[i]].key;
		if (key < last) {
			snprintf(failmsg, sizeof(failmsg), "timer with expiry rank %d ran after one with rank %d (position %d)", key, last, i);
			return -1;
		}
		last = key;
	}
	return 0;
}

static void closure(int N, int K, double deadline, int handlers_M)
{
	struct cstate c0 = { 0 };
	struct timespec ts;

	cqcap = 1 << 16;
	cq = malloc(cqcap * sizeof(*cq));
	cseen_cap = 1 << 24;
	cseen = calloc(cseen_cap, 8);
	cseen_add(&c0);
	cq_push(&c0);
	while (cqh < cqt) {
		struct cstate c = cq[cqh++], d;
		int k, p;
		char sd[256];

		desc_state(&c, sd);
		me->states++;
		if (me->nsample < 4 && c.n >= 4 && (me->states & (me->states - 1)) == 0)
			snprintf(me->sample[me->nsample++], 200, "heap %s", sd);

		/* drain from this state */
		snprintf(curdesc, sizeof(curdesc), "closure %s drain", sd);
		instantiate(&c);
		if (check_heap(c.n) < 0 || check_slots() < 0) { report("harness-self-check"); return; }
		if (drain(count_expiring(&c)) < 0) { report("timer-order"); return; }
		if (check_drain_sorted(&c) < 0) { report("timer-order"); return; }
		if (check_heap(c.n - count_expiring(&c)) < 0) { report("timer-heap"); return; }
		clear_heap();

		/* handler programs (part "handlers"): only for small states */
		if (handlers_M && !farkey && c.n >= 2 && c.n <= handlers_M) {
			int i, j;
			for (i = 0; i < c.n - 0; i++) {
				/* (1) the i-th handler unregisters the timer that fires j-th, j>i */
				for (j = i + 1; j < c.n; j++) {
					int order[CL_MAXN], q, victim_id, cnt;
					/* first a plain drain to learn the firing order */
					instantiate(&c);
					act_at = -1;
					drain(c.n);
					for (q = 0; q < c.n; q++) order[q] = fire_log[q];
					clear_heap();
					victim_id = order[j];
					snprintf(curdesc, sizeof(curdesc), "handlers %s: handler #%d unregisters pending timer fired #%d", sd, i, j);
					instantiate(&c);
					act_at = i; act_kind = 1; act_arg = victim_id;
					if (drain(c.n - 1) < 0) { report("timer-order"); return; }
					act_at = -1;
					me->ops++;
					cnt = 0;
					for (q = 0; q < nfire; q++) {
						if (fire_log[q] == victim_id) {
							snprintf(failmsg, sizeof(failmsg), "timer unregistered from another handler still fired");
							report("timer-independence"); return;
						}
						cnt++;
					}
					if (cnt != c.n - 1) {
						snprintf(failmsg, sizeof(failmsg), "%d timers fired, expected %d", cnt, c.n - 1);
						report("timer-independence"); return;
					}
					{
						int last = -1;
						for (q = 0; q < nfire; q++) {
							int key = slots[fire_log[q]].key;
							if (key < last) {
								snprintf(failmsg, sizeof(failmsg), "order violated after handler unregistration");
								report("timer-order"); return;
							}
							last = key;
						}
					}
					if (check_heap(0) < 0) { report("timer-heap"); return; }
					clear_heap();
				}
				/* (2) the i-th handler registers a fresh timer with key k */
				for (k = 1; k <= K; k++) {
					int q, cnt = 0;
					snprintf(curdesc, sizeof(curdesc), "handlers %s: handler #%d registers fresh timer key %d", sd, i, k);
					instantiate(&c);
					act_at = i; act_kind = 2; act_key = k;
					if (drain(c.n) < 0) { report("timer-order"); return; }
					act_at = -1;
					me->ops++;
					for (q = 0; q < nslots; q++)
						cnt += slots[q].fired;
					if (cnt != c.n + 1 || nfire != c.n + 1) {
						snprintf(failmsg, sizeof(failmsg), "%d fires, expected %d", nfire, c.n + 1);
						report("timer-independence"); return;
					}
					if (check_heap(0) < 0) { report("timer-heap"); return; }
					clear_heap();
				}
			}
		}

		/* register(key) */
		if (c.n < N)
			for (k = 1; k <= K; k++) {
				struct tslot *s;
				snprintf(curdesc, sizeof(curdesc), "closure %s register key %d", sd, k);
				instantiate(&c);
				s = new_slot(k);
				reg_slot(s);
				me->ops++;
				if (check_heap(c.n + 1) < 0 || check_slots() < 0) { report("timer-heap"); return; }
				extract(&d);
				/* multiset check */
				{
					int cntm[256] = { 0 }, q, bad = 0;
					for (q = 0; q < c.n; q++) cntm[c.k[q]]++;
					cntm[k]++;
					for (q = 0; q < d.n; q++) cntm[d.k[q]]--;
					for (q = 0; q < 256; q++) if (cntm[q]) bad = 1;
					if (bad) { snprintf(failmsg, sizeof(failmsg), "key multiset changed by register"); report("timer-independence"); return; }
				}
				clear_heap();
				if (cseen_add(&d))
					cq_push(&d);
			}
		/* unregister(position) */
		for (p = 0; p < c.n; p++) {
			snprintf(curdesc, sizeof(curdesc), "closure %s unregister position %d", sd, p + 1);
			instantiate(&c);
			unreg_slot(&slots[p]);
			me->ops++;
			if (check_heap(c.n - 1) < 0 || check_slots() < 0) { report("timer-heap"); return; }
			extract(&d);
			{
				int cntm[256] = { 0 }, q, bad = 0;
				for (q = 0; q < c.n; q++) cntm[c.k[q]]++;
				cntm[c.k[p]]--;
				for (q = 0; q < d.n; q++) cntm[d.k[q]]--;
				for (q = 0; q < 256; q++) if (cntm[q]) bad = 1;
				if (bad) { snprintf(failmsg, sizeof(failmsg), "key multiset changed by unregister"); report("timer-independence"); return; }
			}
			clear_heap();
			if (cseen_add(&d))
				cq_push(&d);
		}
		if ((cqh & 255) == 0 && deadline > 0) {
			clock_gettime(CLOCK_MONOTONIC, &ts);
			if (ts.tv_sec + ts.tv_nsec / 1e9 > deadline) {
				me->failed = -1;
				return;
			}
		}
	}
}

/* ---------------- boundary part */
/* menu of operations; victims are described by heap position classes */
enum { OP_REG_MIN, OP_REG_MAX, OP_REG_EQROOT, OP_UNREG_ROOT, OP_UNREG_LAST, OP_UNREG_LEAF0,
       OP_UNREG_MID_UP, OP_UNREG_MID_DOWN, OP_UNREG_PARENT_OF_LAST, NOPS };
static const char *opname[NOPS] = { "reg-min", "reg-max", "reg-eq-root", "unreg-root", "unreg-last",
	"unreg-first-of-last-leaf", "unreg-interior(small-last)", "unreg-pos2", "unreg-parent-of-last" };

static int model_n;

static struct tslot *slot_at(int index)
{
	struct iv_timer_ *t = peek_node(iv_get_state(), index);
	return t ? (struct tslot *)t->cookie : NULL;
}

static int apply_op(int op)
{
	struct iv_state *st = iv_get_state();
	int n = st->num_timers;
	struct tslot *s;
	switch (op) {
	case OP_REG_MIN: s = new_slot(1); reg_slot(s); model_n++; return 0;
	case OP_REG_MAX: s = new_slot(900000); reg_slot(s); model_n++; return 0;
	case OP_REG_EQROOT:
		if (!n) return -1;
		s = new_slot(slot_at(1)->key); reg_slot(s); model_n++; return 0;
	case OP_UNREG_ROOT: if (!n) return -1; unreg_slot(slot_at(1)); model_n--; return 0;
	case OP_UNREG_LAST: if (!n) return -1; unreg_slot(slot_at(n)); model_n--; return 0;
	case OP_UNREG_LEAF0: {
		int idx = n & ~(IV_TIMER_SPLIT_NODES - 1);
		if (idx < 1) idx = 1;
		if (!n) return -1;
		unreg_slot(slot_at(idx)); model_n--; return 0;
	}
	case OP_UNREG_MID_UP: {
		/* a victim in another subtree than the last element, deep in the heap */
		/* an interior node (it has children) that is not an ancestor of the last slot */
		int idx = n / 4 + 1;
		if (n < 8) return -1;
		unreg_slot(slot_at(idx)); model_n--; return 0;
	}
	case OP_UNREG_MID_DOWN: if (n < 3) return -1; unreg_slot(slot_at(2)); model_n--; return 0;
	case OP_UNREG_PARENT_OF_LAST: if (n < 2) return -1; unreg_slot(slot_at(n / 2)); model_n--; return 0;
	}
	return -1;
}

static void prefill(int n, int fill)
{
	int i;
	nslots = 0;
	model_n = 0;
	for (i = 0; i < n; i++) {
		int key;
		switch (fill) {
		case 0: key = 10 + i; break;                    /* ascending */
		case 1: key = 10 + (n - i); break;              /* descending */
		case 2: key = 500; break;                       /* constant */
		default: key = 10 + ((i & 1) ? i : n + 1000 - i); break;  /* zig-zag */
		}
		reg_slot(new_slot(key));
		model_n++;
	}
}

static int check_drain_all(void)
{
	/* every registered (expired) timer fires once, non-decreasing */
	int expect = 0, i, last = -1;
	for (i = 0; i < nslots; i++)
		if (slots[i].registered)
			expect++;
	act_at = -1;
	if (drain(expect) < 0)
		return -1;
	if (nfire != expect) {
		snprintf(failmsg, sizeof(failmsg), "%d of %d timers fired", nfire, expect);
		return -1;
	}
	for (i = 0; i < nfire; i++) {
		int key = slots[fire_log[i]].key;
		if (key < last) {
			snprintf(failmsg, sizeof(failmsg), "drain order violated at position %d (rank %d after %d)", i, key, last);
			return -1;
		}
		last = key;
	}
	return 0;
}

static void boundary_seq(int n, int fill, const int *ops, int depth)
{
	int i;
	char *p = curdesc;
	p += sprintf(p, "boundary n=%d fill=%d ops=", n, fill);
	for (i = 0; i < depth; i++)
		p += sprintf(p, "%s%s", i ? "," : "", opname[ops[i]]);
	prefill(n, fill);
	if (check_heap(model_n) < 0 || check_slots() < 0) { report("timer-heap"); return; }
	for (i = 0; i < depth; i++) {
		if (apply_op(ops[i]) < 0)
			break;
		me->ops++;
		if (check_heap(model_n) < 0 || check_slots() < 0) {
			char extra[64];
			snprintf(extra, sizeof(extra), " (after op %d)", i + 1);
			strncat(failmsg, extra, sizeof(failmsg) - strlen(failmsg) - 1);
			report("timer-heap");
			return;
		}
	}
	if (check_drain_all() < 0) { report("timer-order"); return; }
	if (check_heap(0) < 0) { report("timer-heap"); return; }
	me->states++;
	if (me->nsample < 4 && (me->states & (me->states - 1)) == 0)
		snprintf(me->sample[me->nsample++], 200, "%.190s", curdesc);
	nslots = 0;
}

static const char *arg(int argc, char **argv, const char *key, const char *d)
{
	int i;
	size_t l = strlen(key);
	for (i = 1; i < argc; i++)
		if (!strncmp(argv[i], key, l) && argv[i][l] == '=')
			return argv[i] + l + 1;
	return d;
}

static void jstr(FILE *f, const char *s)
{
	fputc('"', f);
	for (; *s; s++) {
		if (*s == '"' || *s == '\\') fputc('\\', f);
		if ((unsigned char)*s < 0x20) { fprintf(f, "\\u%04x", *s); continue; }
		fputc(*s, f);
	}
	fputc('"', f);
}

static void on_alarm(int sig)
{
	if (me && !me->failed) {
		me->failed = 1;
		snprintf(me->rule, sizeof(me->rule), "hang");
		snprintf(me->msg, sizeof(me->msg), "iv_main did not return within 20 s draining expired timers on %s", curdesc);
		snprintf(me->replay, sizeof(me->replay), "%s", curdesc);
	}
	_exit(0);
}

int main(int argc, char **argv)
{
	const char *part = arg(argc, argv, "part", "closure");
	int N = atoi(arg(argc, argv, "n", "6"));
	int K = atoi(arg(argc, argv, "keys", "3"));
	int M = atoi(arg(argc, argv, "handlers", "0"));
	int D = atoi(arg(argc, argv, "depth", "3"));
	farkey = atoi(arg(argc, argv, "farkey", "0"));
	int W = atoi(arg(argc, argv, "workers", "16"));
	double dl = atof(arg(argc, argv, "deadline", "0"));
	const char *out = arg(argc, argv, "out", NULL);
	const char *sizes = arg(argc, argv, "sizes", "126,127,128,129,16382,16383,16384,16385");
	struct timespec t0, t1;
	double deadline = 0;
	int w, complete = 1, nfailed = 0;
	unsigned long states = 0, ops = 0, drains = 0, fired = 0;
	FILE *f;
	pid_t pids[64];

	clock_gettime(CLOCK_MONOTONIC, &t0);
	if (dl > 0)
		deadline = t0.tv_sec + t0.tv_nsec / 1e9 + dl;
	R = mmap(NULL, sizeof(struct result) * 64, PROT_READ | PROT_WRITE, MAP_SHARED | MAP_ANONYMOUS, -1, 0);
	iv_set_fatal_msg_handler(fatal_handler);
	signal(SIGALRM, on_alarm);
	if (N > CL_MAXN) N = CL_MAXN;
	if (W > 64) W = 64;

	if (!strcmp(part, "closure")) {
		W = 1;
		pids[0] = fork();
		if (pids[0] == 0) {
			me = &R[0];
			iv_init();
			closure(N, K, deadline, M);
			if (!me->failed) {
				iv_deinit();
			}
			exit(0);    /* runs the leak check */
		}
	} else {
		/* boundary: enumerate (size, fill, op sequence) and stripe over workers */
		int sz[32], nsz = 0;
		const char *p = sizes;
		while (*p && nsz < 32) {
			sz[nsz++] = strtol(p, (char **)&p, 10);
			if (*p == ',') p++;
		}
		for (w = 0; w < W; w++) {
			pids[w] = fork();
			if (pids[w] == 0) {
				long idx = 0, total = 1;
				int d, si, fill;
				me = &R[w];
				iv_init();
				for (d = 0; d < D; d++) total *= NOPS;
				for (si = 0; si < nsz; si++)
					for (fill = 0; fill < 4; fill++) {
						long s;
						for (s = 0; s < total; s++, idx++) {
							int opsq[8], q;
							long x = s;
							if (idx % W != w)
								continue;
							for (q = 0; q < D; q++) { opsq[q] = x % NOPS; x /= NOPS; }
							boundary_seq(sz[si], fill, opsq, D);
							if (me->failed)
								_exit(0);
							if (deadline > 0) {
								clock_gettime(CLOCK_MONOTONIC, &t1);
								if (t1.tv_sec + t1.tv_nsec / 1e9 > deadline) {
									me->failed = -1;
									_exit(0);
								}
							}
						}
					}
				iv_deinit();
				exit(0);    /* leak check */
			}
		}
	}
	for (w = 0; w < W; w++) {
		int st;
		waitpid(pids[w], &st, 0);
		if (!WIFEXITED(st) || WEXITSTATUS(st)) {
			if (!R[w].failed) {
				R[w].failed = 1;
				snprintf(R[w].rule, 64, WIFEXITED(st) && WEXITSTATUS(st) == 44 ? "sanitizer" : "crash");
				snprintf(R[w].msg, sizeof(R[w].msg), "worker ended with status 0x%x (sanitizer report, leak or signal; see stderr)", st);
			}
		}
	}
	clock_gettime(CLOCK_MONOTONIC, &t1);
	f = out ? fopen(out, "w") : stdout;
	for (w = 0; w < W; w++) {
		states += R[w].states; ops += R[w].ops; drains += R[w].drains; fired += R[w].fired;
		if (R[w].failed == -1) complete = 0;
	}
	fprintf(f, "{\"harness\":\"h_theap\",\"part\":\"%s\",\"params\":{\"n\":%d,\"keys\":%d,\"handlers\":%d,\"depth\":%d,\"sizes\":\"%s\"},",
		part, N, K, M, D, sizes);
	fprintf(f, "\"states\":%lu,\"transitions\":%lu,\"drains\":%lu,\"handler_invocations\":%lu,\"samples\":[", states, ops, drains, fired);
	{
		int first = 0, k;
		for (w = 0; w < W; w++)
			for (k = 0; k < R[w].nsample && first < 6; k++) {
				fprintf(f, "%s", first ? "," : "");
				jstr(f, R[w].sample[k]);
				first++;
			}
	}
	fprintf(f, "],\"violations\":[");
	for (w = 0; w < W; w++)
		if (R[w].failed == 1) {
			fprintf(f, "%s{\"rule\":", nfailed ? "," : "");
			jstr(f, R[w].rule);
			fprintf(f, ",\"msg\":");
			jstr(f, R[w].msg);
			fprintf(f, ",\"replay\":");
			jstr(f, R[w].replay);
			fprintf(f, "}");
			nfailed++;
		}
	fprintf(f, "],\"complete\":%s,\"wall_s\":%.3f}\n", complete ? "true" : "false",
		(t1.tv_sec - t0.tv_sec) + (t1.tv_nsec - t0.tv_nsec) / 1e9);
	if (out)
		fclose(f);
	fprintf(stderr, "[h_theap %s] states=%lu ops=%lu drains=%lu viol=%d complete=%d\n", part, states, ops, drains, nfailed, complete);
	return nfailed ? 1 : 0;
}
