/*
 * h_thread: iv_thread lifetime (property C13 second half; C14/C18 runs).
 * Creator (thread 0) runs iv_main and creates 1-2 threads through
 * iv_thread_create; each ends in one of four ways.  The creator's iv_main
 * must not return before every created thread has finished and been joined,
 * and must return afterwards.
 */
#ifndef _GNU_SOURCE
#define _GNU_SOURCE
#endif
#include <errno.h>
#include <stdio.h>
#include <stdlib.h>
#include <string.h>
#include <unistd.h>
#include <iv.h>
#include <iv_event.h>
#include <iv_thread.h>
#include "mc.h"
#include "env.h"
#include "mcsched.h"

enum { X_RETURN, X_PTHREAD_EXIT, X_LOOP_DEINIT, X_LOOP_NODEINIT, NX };
static const char *xname[NX] = { "return", "pthread_exit", "iv_init+iv_main+iv_deinit", "iv_init-without-deinit" };
static int mode[2], nthreads, body_done[2];
static struct iv_timer tm, ctm[2];
static struct iv_task ctask[2];
static long allocs0;

#include <iv_tls.h>
/* a module with per-thread state, as iv_tls(3) describes: its tear-down hook may call any ivykis function */
struct modstate { int inited; };
static int mod_inits, mod_deinits;
static void mod_init_thread(void *_m) { ((struct modstate *)_m)->inited = 1; __atomic_add_fetch(&mod_inits, 1, __ATOMIC_RELAXED); }
static void mod_deinit_thread(void *_m)
{
	struct modstate *m = _m;
	if (!m->inited)
		mc_fail("tls-hook", "module tear-down hook ran for a thread state that was never set up");
	if (!iv_inited())
		mc_fail("tls-hook", "inside a module's thread tear-down hook iv_inited() is false: the library state is not available to the hook");
	iv_validate_now();
	m->inited = 0;
	__atomic_add_fetch(&mod_deinits, 1, __ATOMIC_RELAXED);
}
static struct iv_tls_user mod_tls_user = { .sizeof_state = sizeof(struct modstate), .init_thread = mod_init_thread, .deinit_thread = mod_deinit_thread };
static void mod_ctor(void) __attribute__((constructor));
static void mod_ctor(void) { iv_tls_user_register(&mod_tls_user); }

static void child_task(void *_i)
{
	mc_obs("C%ld:task", (long)_i);
}

static void child_timer(void *_i)
{
	mc_obs("C%ld:timer", (long)_i);
}

static void body(void *_i)
{
	long i = (long)_i;
	mc_obs("C%ld:start(%s)", i, xname[mode[i]]);
	mc_mark_callback();
	sched_yield_point("child-body");
	switch (mode[i]) {
	case X_RETURN:
		break;
	case X_PTHREAD_EXIT:
		body_done[i] = 1;
		mc_obs("C%ld:pthread_exit", i);
		sched_exit_thread();
	case X_LOOP_DEINIT:
	case X_LOOP_NODEINIT:
		iv_init();
		IV_TASK_INIT(&ctask[i]);
		ctask[i].cookie = (void *)i;
		ctask[i].handler = child_task;
		iv_task_register(&ctask[i]);
		IV_TIMER_INIT(&ctm[i]);
		ctm[i].cookie = (void *)i;
		ctm[i].handler = child_timer;
		ctm[i].expires = env_now;
		ctm[i].expires.tv_nsec += 1000000;
		iv_timer_register(&ctm[i]);
		iv_main();
		if (mode[i] == X_LOOP_DEINIT)
			iv_deinit();
		break;
	}
	body_done[i] = 1;
	mc_obs("C%ld:end", i);
}

static void creator_timer(void *dummy)
{
	(void)dummy;
	mc_obs("O:timer");
	if (nthreads == 2) {
		mc_obs("O:create-C1");
		if (iv_thread_create("c1", body, (void *)1L) != 0)
			mc_fail("try-failed", "iv_thread_create failed");
	}
}

static int quiescent(void)
{
	mc_fail("stuck", "all threads blocked for good but the creator's iv_main has not returned (children done: %d %d)", body_done[0], body_done[1]);
}

static void exec_one(void)
{
	static const char *excl[4] = { "", "epoll-timerfd", "epoll-timerfd epoll", "epoll-timerfd epoll ppoll" };
	int method, i;

	env_init();
	sched_init();
	sched_on_quiescence = quiescent;
	sched_max_points = mc_arg_int("maxpoints", 4000);
	method = mc_choose(4, MC_CONFIG, "method");
	env_exclude_methods = excl[method];
	nthreads = 1 + mc_choose(2, MC_CONFIG, "second-thread");
	mode[0] = mc_choose(NX, MC_CONFIG, "mode0");
	mode[1] = nthreads == 2 ? mc_choose(NX, MC_CONFIG, "mode1") : 0;
	mc_obs("m%d n=%d %s/%s", method, nthreads, xname[mode[0]], nthreads == 2 ? xname[mode[1]] : "-");
	allocs0 = env_lib_allocs_live;
	iv_init();
	mc_obs("O:create-C0");
	if (iv_thread_create("c0", body, (void *)0L) != 0)
		mc_fail("try-failed", "iv_thread_create failed");
	IV_TIMER_INIT(&tm);
	if (nthreads == 2) {
		tm.expires = env_now;
		tm.handler = creator_timer;
		iv_timer_register(&tm);
	}
	iv_main();
	mc_obs("O:ret");
	for (i = 0; i < nthreads; i++) {
		if (!body_done[i])
			mc_fail("thread-alive", "creator's iv_main returned while created thread %d has not even finished its body", i);
		if (!sched_finished(i + 1))
			mc_fail("thread-alive", "creator's iv_main returned while created thread %d has not exited", i);
	}
	if (env_joined_threads != nthreads)
		mc_fail("thread-join", "%d threads were created through iv_thread_create but %d were joined", nthreads, env_joined_threads);
	iv_deinit();
	if (mod_inits != mod_deinits)
		mc_fail("tls-hook", "module thread-state hooks: %d set-ups but %d tear-downs after every loop thread ended", mod_inits, mod_deinits);
	if (env_lib_allocs_live != allocs0)
		mc_fail("leak-mem", "%ld library allocations live after all threads ended and iv_deinit", env_lib_allocs_live - allocs0);
	if (env_lib_fds_open()) {
		char b[200];
		env_lib_fds_list(b, sizeof(b));
		mc_fail("leak-fd", "library descriptors left open: %s", b);
	}
	mc_done();
}

int main(int argc, char **argv)
{
	static const struct mc_harness h = { .name = "h_thread", .exec = exec_one, .timeout_s = 30 };
	return mc_main(argc, argv, &h);
}
