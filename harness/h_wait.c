/*
 * h_wait: iv_wait (property C11; wait part of C01/C14/C18).
 * Simulated process table (fork/wait4/kill of the library are served by env).
 * Two loop threads own the wait interests; a driver thread makes children
 * change state and raises SIGCHLD in any thread; loops execute commands
 * (spawn with interest, register by pid, unregister, kill).
 */
#ifndef _GNU_SOURCE
#define _GNU_SOURCE
#endif
#include <errno.h>
#include <signal.h>
#include <stdio.h>
#include <stdlib.h>
#include <string.h>
#include <unistd.h>
#include <sys/wait.h>
#include <iv.h>
#include <iv_event.h>
#include <iv_wait.h>
#include "mc.h"
#include "env.h"
#include "mcsched.h"

#define NC 3
enum { K_NONE, K_SPAWN0, K_SPAWN1, K_STRANGER, K_BYPID0 };
struct child {
	int kind;
	int pid;
	struct env_proc *proc;
	struct iv_wait_interest *wi;
	int owner;              /* loop owning the interest, -1 none */
	int reg;                /* interest registered */
	int nchanges, changes[8];
	int delivered;          /* next expected index */
	int dead_delivered;
	int quick;              /* exits before fork() returns */
	int state;              /* 0 running 1 stopped 2 dead */
};
static struct child C[NC];
static int tid_of[2];
static struct iv_event cmd_ev[2];
static volatile int cmd_done[2];
static int cmd_op[2], cmd_arg[2];
static volatile int never;
static volatile int driver_done;
static int hbudget, quick_target;
static int spawning = -1;
static int respawns_left;

enum { CMD_SPAWN, CMD_BYPID, CMD_UNREG, CMD_KILL, CMD_CLEAN, CMD_EXIT, CMD_RESPAWN };

static int cur_loop(void)
{
	return sched_self() == tid_of[0] ? 0 : sched_self() == tid_of[1] ? 1 : -1;
}

static const char *stname(int st)
{
	static __thread char bufs[4][32];
	static __thread int which;
	char *b = bufs[which++ & 3];
#define sizeof_b 32
	if (WIFEXITED(st)) snprintf(b, sizeof_b, "exit%d", WEXITSTATUS(st));
	else if (WIFSTOPPED(st)) snprintf(b, sizeof_b, "stopped");
	else if (WIFCONTINUED(st)) snprintf(b, sizeof_b, "continued");
	else snprintf(b, sizeof_b, "killed%d", WTERMSIG(st));
	return b;
}

static void free_interest(struct child *c)
{
	memset(c->wi, 0xbe, sizeof(*c->wi));
	free(c->wi);
	c->wi = NULL;
}

static void wait_handler(void *_c, int status, const struct rusage *ru)
{
	struct child *c = _c;
	int ci = c - C, me = cur_loop();
	(void)ru;
	mc_mark_callback();
	mc_obs("L%d:status-C%d=%s", me, ci, stname(status));
	if (me != c->owner)
		mc_fail("wait-thread", "status of child %d delivered in loop %d, interest registered in loop %d", ci, me, c->owner);
	if (!c->reg)
		mc_fail("stale-callback", "status of child %d delivered although its interest is unregistered", ci);
	if (c->dead_delivered)
		mc_fail("wait-after-death", "child %d: status %s delivered after its terminating status", ci, stname(status));
	if (c->delivered >= c->nchanges)
		mc_fail("wait-extra", "child %d: status %s delivered but no such state change is outstanding", ci, stname(status));
	if (c->changes[c->delivered] != status)
		mc_fail("wait-order", "child %d: got status %s, the next undelivered state change was %s (lost, duplicated or out of order)",
			ci, stname(status), stname(c->changes[c->delivered]));
	c->delivered++;
	if (WIFEXITED(status) || WIFSIGNALED(status))
		c->dead_delivered = 1;
	if (hbudget > 0) {
		/* 0: nothing; 1: unregister (and free) this interest; 2..: unregister another interest of this loop */
		int others[NC], no = 0, k, a;
		for (k = 0; k < NC; k++)
			if (k != ci && C[k].reg && C[k].owner == me)
				others[no++] = k;
		a = mc_choose(2 + no, MC_ACTION, "wait-handler-act");
		if (a == 1) {
			hbudget--;
			mc_obs("L%d:unreg-C%d(in handler)", me, ci);
			iv_wait_interest_unregister(c->wi);
			c->reg = 0;
			free_interest(c);
		} else if (a >= 2) {
			struct child *o = &C[others[a - 2]];
			hbudget--;
			mc_obs("L%d:unreg-C%d(in handler of C%d)", me, others[a - 2], ci);
			iv_wait_interest_unregister(o->wi);
			o->reg = 0;
			free_interest(o);
		}
	}
}

static void child_side(void *cookie)
{
	(void)cookie;       /* never runs: fork() is simulated */
}

static struct iv_wait_interest *mk_interest(struct child *c)
{
	c->wi = malloc(sizeof(*c->wi));
	memset(c->wi, 0xbe, sizeof(*c->wi));
	IV_WAIT_INTEREST_INIT(c->wi);
	c->wi->cookie = c;
	c->wi->handler = wait_handler;
	return c->wi;
}

static void fork_hook(struct env_proc *p)
{
	struct child *c = &C[spawning];
	c->proc = p;
	c->pid = p->pid;
	if (c->quick) {
		/* the child is gone before fork() even returns to the parent */
		int st = ENV_ST_EXIT(7);
		c->changes[c->nchanges++] = st;
		c->state = 2;
		env_proc_change(p, st);
		mc_obs("C%d:exits-at-once,SIGCHLD->%s", spawning, quick_target == 2 ? "D" : quick_target ? "L1" : "L0");
		if (quick_target < 2)
			sched_signal(tid_of[quick_target], SIGCHLD);
		else
			sched_signal(2, SIGCHLD);           /* driver is scheduler thread 2 */
	}
}

static void cmd_handler(void *_l)
{
	int l = (int)(long)_l, a = cmd_arg[l], i;
	struct child *c = &C[a];
	switch (cmd_op[l]) {
	case CMD_SPAWN:
		mc_obs("L%d:spawn-C%d", l, a);
		spawning = a;
		mk_interest(c);
		c->owner = l;
		c->reg = 1;     /* statuses may arrive from the moment the child exists */
		if (iv_wait_interest_register_spawn(c->wi, child_side, NULL) != 0)
			mc_fail("try-failed", "iv_wait_interest_register_spawn failed");
		spawning = -1;
		break;
	case CMD_BYPID:
		mc_obs("L%d:register-C%d-by-pid", l, a);
		mk_interest(c);
		c->wi->pid = c->pid;
		c->owner = l;
		iv_wait_interest_register(c->wi);
		c->reg = 1;
		break;
	case CMD_UNREG:
		if (c->reg && c->owner == l) {
			mc_obs("L%d:unreg-C%d", l, a);
			iv_wait_interest_unregister(c->wi);
			c->reg = 0;
			free_interest(c);
		}
		break;
	case CMD_KILL:
		if (c->reg && c->owner == l) {
			int r = iv_wait_interest_kill(c->wi, SIGTERM);
			mc_obs("L%d:kill-C%d=%d", l, a, r < 0 ? -1 : 0);
			if (r < 0 && c->proc && c->proc->state != PR_REAPED)
				mc_fail("wait-kill-refused", "the kill helper refused to signal child %d (pid %d) although its termination has not been reaped", a, c->pid);
		}
		break;
	case CMD_RESPAWN:
		if (c->reg && c->owner == l && c->dead_delivered) {
			/* the interest of a child that is dead and reported is unregistered, and the very same struct (initialised
			 * once) is used to spawn the next child */
			mc_obs("L%d:respawn-C%d", l, a);
			iv_wait_interest_unregister(c->wi);
			c->nchanges = c->delivered = c->dead_delivered = 0;
			c->state = 0;
			c->quick = 0;
			spawning = a;
			if (iv_wait_interest_register_spawn(c->wi, child_side, NULL) != 0)
				mc_fail("try-failed", "iv_wait_interest_register_spawn failed");
			spawning = -1;
		}
		break;
	case CMD_CLEAN:
		for (i = 0; i < NC; i++)
			if (C[i].reg && C[i].owner == l) {
				iv_wait_interest_unregister(C[i].wi);
				C[i].reg = 0;
				free_interest(&C[i]);
			}
		break;
	case CMD_EXIT:
		/* the driver's last post: only once it has returned from it (and said so) may its target go away */
		sched_wait_flag(&driver_done);
		iv_event_unregister(&cmd_ev[l]);
		return;
	}
	cmd_done[l] = 1;
	sched_publish();
}

static void loop_body(int l)
{
	iv_init();
	IV_EVENT_INIT(&cmd_ev[l]);
	cmd_ev[l].cookie = (void *)(long)l;
	cmd_ev[l].handler = cmd_handler;
	iv_event_register(&cmd_ev[l]);
	cmd_done[l] = 1;
	sched_publish();
	iv_main();
	iv_deinit();
}

static void l1_thread(void *d) { (void)d; loop_body(1); }

static void command(int l, int op, int arg)
{
	cmd_done[l] = 0;
	cmd_op[l] = op;
	cmd_arg[l] = arg;
	sched_publish();
	iv_event_post(&cmd_ev[l]);
	sched_wait_flag(&cmd_done[l]);
}

static void change(int ci, int st)
{
	struct child *c = &C[ci];
	c->changes[c->nchanges++] = st;
	c->state = (WIFEXITED(st) || WIFSIGNALED(st)) ? 2 : WIFSTOPPED(st) ? 1 : 0;
	mc_obs("C%d:%s", ci, stname(st));
	env_proc_change(c->proc, st);
}

static void sigchld_to(int t)
{
	mc_obs("SIGCHLD->%s", t == 2 ? "D" : t ? "L1" : "L0");
	if (t == 2) {
		sched_raise(SIGCHLD);
	} else {
		sched_signal(tid_of[t], SIGCHLD);
		sched_yield_point("signalled");
	}
}

static int unreaped(void)
{
	int i, n = 0;
	for (i = 0; i < env_nprocs; i++)
		n += env_procs[i].nqueue;
	return n;
}

static void driver(void *dummy)
{
	int i, steps, maxsteps = mc_arg_int("steps", 6);
	(void)dummy;
	sched_wait_flag(&cmd_done[0]);
	sched_wait_flag(&cmd_done[1]);
	/* population */
	for (i = 0; i < NC; i++) {
		switch (C[i].kind) {
		case K_SPAWN0: command(0, CMD_SPAWN, i); break;
		case K_SPAWN1: command(1, CMD_SPAWN, i); break;
		case K_STRANGER:
		case K_BYPID0:
			C[i].pid = env_proc_spawn_plain();
			C[i].proc = env_proc_find(C[i].pid);
			C[i].owner = -1;
			mc_obs("D:plain-child-C%d", i);
			if (C[i].kind == K_BYPID0)
				command(0, CMD_BYPID, i);
			break;
		}
	}
	for (steps = 0; steps < maxsteps; steps++) {
		int menu[48], a1[48], a2[48], n = 0, c, dflt = -1;
		/* default: the next live child exits and SIGCHLD reaches the driver thread; when none is left, stop */
		for (i = 0; i < NC; i++)
			if (C[i].kind != K_NONE && C[i].state != 2) { dflt = i; break; }
		if (dflt >= 0) { menu[n] = 1; a1[n] = dflt; a2[n++] = ENV_ST_EXIT(0); }
		else if (unreaped()) { menu[n] = 2; a1[n] = 2; a2[n++] = 0; }
		else { menu[n] = 0; a1[n] = 0; a2[n++] = 0; }
		for (i = 0; i < NC; i++) {
			if (C[i].kind == K_NONE || C[i].state == 2 || C[i].nchanges >= 6)
				continue;
			if (C[i].state == 0) { menu[n] = 3; a1[n] = i; a2[n++] = ENV_ST_STOPPED(SIGSTOP); }
			if (C[i].state == 1) { menu[n] = 3; a1[n] = i; a2[n++] = ENV_ST_CONTINUED; }
			menu[n] = 3; a1[n] = i; a2[n++] = ENV_ST_EXIT(3);
			menu[n] = 3; a1[n] = i; a2[n++] = ENV_ST_KILLED(SIGKILL);
		}
		for (i = 0; i < 3; i++) { menu[n] = 2; a1[n] = i; a2[n++] = 0; }
		for (i = 0; i < NC; i++)
			if (C[i].reg) {
				menu[n] = 4; a1[n] = i; a2[n++] = 0;
				menu[n] = 5; a1[n] = i; a2[n++] = 0;
			}
		for (i = 0; i < NC; i++)
			if (C[i].reg && C[i].dead_delivered && respawns_left > 0 && (C[i].kind == K_SPAWN0 || C[i].kind == K_SPAWN1)) {
				menu[n] = 6; a1[n] = i; a2[n++] = 0;
			}
		c = mc_choose(n, MC_ACTION, "driver-step");
		if (menu[c] == 6) {
			respawns_left--;
			command(C[a1[c]].owner, CMD_RESPAWN, a1[c]);
			continue;
		}
		switch (menu[c]) {
		case 0: goto out;
		case 1: change(a1[c], a2[c]); sigchld_to(2); break;
		case 2: sigchld_to(a1[c]); break;
		case 3: change(a1[c], a2[c]); break;        /* the signal comes later (coalescing) */
		case 4: command(C[a1[c]].owner, CMD_UNREG, a1[c]); break;
		case 5: command(C[a1[c]].owner, CMD_KILL, a1[c]); break;
		}
	}
out:
	if (unreaped())
		sigchld_to(2);
	mc_obs("D:idle");
	sched_wait_flag(&never);
	mc_obs("D:teardown");
	command(1, CMD_CLEAN, 0);
	command(0, CMD_CLEAN, 0);
	/* final posts; nobody waits for a reply, and the loops wait for driver_done before tearing down */
	cmd_op[1] = cmd_op[0] = CMD_EXIT;
	sched_publish();
	iv_event_post(&cmd_ev[1]);
	iv_event_post(&cmd_ev[0]);
	driver_done = 1;
	sched_publish();
}

static void check_obligations(const char *when, int zombies)
{
	int i;
	for (i = 0; i < NC; i++) {
		struct child *c = &C[i];
		if (c->kind == K_NONE)
			continue;
		if (c->reg && c->delivered < c->nchanges)
			mc_fail("wait-lost", "%s: child %d changed state %d times but only %d statuses reached its interest (next undelivered: %s)",
				when, i, c->nchanges, c->delivered, stname(c->changes[c->delivered]));
	}
	for (i = 0; i < env_nprocs; i++) {
		if (zombies && env_procs[i].nqueue)
			mc_fail("wait-zombie", "%s: pid %d has %d unreaped state changes (a zombie would remain)", when, env_procs[i].pid, env_procs[i].nqueue);
		if (env_procs[i].kills_after_reap)
			mc_fail("kill-after-reap", "the kill helper signalled pid %d %d time(s) after its termination had been reaped", env_procs[i].pid, env_procs[i].kills_after_reap);
	}
}

static int quiescent(void)
{
	int i, any_interest = 0;
	for (i = 0; i < NC; i++) any_interest += C[i].reg;
	/* with no interest registered anywhere nobody listens for SIGCHLD; unreaped strangers are then the application's */
	/* reaping is only promised while some interest is registered */
	check_obligations("all threads idle", any_interest);
	if (!never) {
		/* the scenario is over and judged; the tear-down only serves the ledger: no schedule exploration in it */
		sched_no_more_choices = 1;
		never = 1;
		return 1;
	}
	mc_fail("stuck", "threads idle for good during tear-down");
}

static const int POP[][NC] = {
	{ K_SPAWN0, K_NONE, K_NONE },
	{ K_SPAWN0, K_STRANGER, K_NONE },
	{ K_SPAWN0, K_SPAWN1, K_NONE },
	{ K_SPAWN1, K_SPAWN0, K_STRANGER },
	{ K_BYPID0, K_SPAWN1, K_NONE },
	{ K_SPAWN0, K_SPAWN0, K_NONE },
	{ K_STRANGER, K_SPAWN1, K_NONE },
};
#define NPOP ((int)(sizeof(POP) / sizeof(POP[0])))

static void exec_one(void)
{
	static const char *excl[4] = { "", "epoll-timerfd", "epoll-timerfd epoll", "epoll-timerfd epoll ppoll" };
	int pop, i, method, l1, d;
	long allocs0;

	env_init();
	env_sim_procs = 1;
	env_fork_hook = fork_hook;
	sched_init();
	sched_on_quiescence = quiescent;
	sched_signal_atomic = 0;
	sched_max_points = mc_arg_int("maxpoints", 8000);
	hbudget = mc_arg_int("hacts", 1);
	respawns_left = mc_arg_int("respawns", 1);
	method = mc_arg_int("method", 0);
	env_exclude_methods = excl[method];
	{
		int pl[16], np = 0;
		const char *a = mc_arg("pops", "");
		while (*a && np < 16) {
			char *e;
			long v = strtol(a, &e, 10), w;
			if (e == a) break;
			w = v;
			if (*e == '-') w = strtol(e + 1, &e, 10);
			for (; v <= w && np < 16; v++) pl[np++] = v;
			a = e;
			if (*a == ',') a++;
		}
		if (np)
			pop = pl[mc_choose(np, MC_CONFIG, "population")];
		else
			pop = mc_choose(NPOP, MC_CONFIG, "population");
		if (pop < 0 || pop >= NPOP)
			mc_broken("bad population");
	}
	for (i = 0; i < NC; i++) {
		C[i].kind = POP[pop][i];
		C[i].owner = -1;
	}
	{
		/* one spawned child may be gone before fork() returns to the parent */
		int q = mc_choose(3, MC_CONFIG, "child-exits-at-once");
		if (q && (C[q - 1].kind == K_SPAWN0 || C[q - 1].kind == K_SPAWN1)) {
			C[q - 1].quick = 1;
			quick_target = mc_choose(3, MC_CONFIG, "its-sigchld-goes-to");
		}
		mc_obs("m%d pop%d quick%d", method, pop, q);
	}
	allocs0 = env_lib_allocs_live;
	/* iv_init(3): the very first iv_init of the process must complete before other threads call it */
	iv_init();
	iv_deinit();
	tid_of[0] = 0;
	tid_of[1] = l1 = sched_spawn("L1", l1_thread, NULL);
	d = sched_spawn("D", driver, NULL);
	if (d != 2)
		mc_broken("driver thread id %d", d);
	loop_body(0);
	sched_join(l1);
	sched_join(d);
	check_obligations("at exit", 0);
	if (env_lib_allocs_live != allocs0)
		mc_fail("leak-mem", "%ld library allocations live after both loops were deinitialised (queued status records?)", env_lib_allocs_live - allocs0);
	if (env_lib_fds_open()) {
		char b[200];
		env_lib_fds_list(b, sizeof(b));
		mc_fail("leak-fd", "library descriptors left open: %s", b);
	}
	mc_done();
}

int main(int argc, char **argv)
{
	static const struct mc_harness h = { .name = "h_wait", .exec = exec_one, .timeout_s = 30 };
	return mc_main(argc, argv, &h);
}
