/*
 * h_pump: iv_fd_pump (property C17).
 *  mode=rw     : splice probe answered "unavailable"; the pump's descriptors are
 *                simulated: every read()/write() result is a choice (full, 1 byte,
 *                half, EAGAIN, EINTR, I/O error, EOF).  Quiescent-state hashing on
 *                (source offset, sink offset, pump fields) closes the space.
 *  mode=splice : real pipes / socket pairs; feed / drain / close / pump programs.
 */
#ifndef _GNU_SOURCE
#define _GNU_SOURCE
#endif
#include <errno.h>
#include <fcntl.h>
#include <poll.h>
#include <stdio.h>
#include <stdlib.h>
#include <string.h>
#include <unistd.h>
#include <sys/ioctl.h>
#include <sys/socket.h>
#include <iv.h>
#include <iv_fd_pump.h>
#include "mc.h"
#include "env.h"

#define BUFSZ 4096
#define FROM_FD 900
#define TO_FD 901

static struct iv_fd_pump *ip;
static int relay_eof, allow_err;
static int band_in, band_out, bands_set;
static long L, src_off, sink_off, pat_base;
static int eof_returned, shutdown_calls, io_error_injected, pump_idx;
static long allocs0;

static unsigned char pat(long i) { return (unsigned char)((i + pat_base) % 251); }

static void set_bands(void *cookie, int in, int out)
{
	if (cookie != (void *)&ip)
		mc_fail("pump-cookie", "set_bands called with a wrong cookie");
	band_in = in;
	band_out = out;
	bands_set++;
}

/* ------------------------------------------------------------- rw mode */
static int rd_override(int fd, void *buf, size_t n, ssize_t *ret)
{
	long rem = L - src_off, give;
	int c;
	size_t i;
	if (fd != FROM_FD)
		return 0;
	if (eof_returned)
		mc_fail("pump-read-after-eof", "pump read from its input again after end-of-file was returned");
	if (n > BUFSZ)
		mc_fail("pump-overrun", "read of %zu bytes requested, more than the buffer", n);
	if (n == 0) {
		mc_obs("read0");
		*ret = 0;
		return 1;
	}
	if (rem > 0) {
		c = mc_choose(allow_err ? 6 : 5, MC_FAULT, "read");
		give = rem < (long)n ? rem : (long)n;
		switch (c) {
		case 0: break;
		case 1: give = 1; break;
		case 2: give = give / 2 ? give / 2 : 1; break;
		case 3: errno = EAGAIN; *ret = -1; mc_obs("rd-eagain"); return 1;
		case 4: errno = EINTR; *ret = -1; mc_obs("rd-eintr"); return 1;
		default: errno = EIO; *ret = -1; io_error_injected = 1; mc_obs("rd-eio"); return 1;
		}
		for (i = 0; i < (size_t)give; i++)
			((unsigned char *)buf)[i] = pat(src_off + i);
		src_off += give;
		mc_obs("rd%ld", give);
		*ret = give;
		return 1;
	}
	c = mc_choose(allow_err ? 4 : 3, MC_FAULT, "read-eof");
	switch (c) {
	case 0: eof_returned = 1; mc_obs("rd-eof"); *ret = 0; return 1;
	case 1: errno = EAGAIN; *ret = -1; mc_obs("rd-eagain"); return 1;
	case 2: errno = EINTR; *ret = -1; mc_obs("rd-eintr"); return 1;
	default: errno = EIO; *ret = -1; io_error_injected = 1; mc_obs("rd-eio"); return 1;
	}
}

static int wr_override(int fd, const void *buf, size_t n, ssize_t *ret)
{
	long take = n;
	int c;
	size_t i;
	if (fd != TO_FD)
		return 0;
	if (n == 0 || (long)n > src_off - sink_off)
		mc_fail("pump-stream", "write of %zu bytes requested but %ld bytes are buffered", n, src_off - sink_off);
	if (shutdown_calls)
		mc_fail("pump-eof-order", "data written after the output was shut down");
	c = mc_choose(allow_err ? 6 : 5, MC_FAULT, "write");
	switch (c) {
	case 0: break;
	case 1: take = 1; break;
	case 2: take = take / 2 ? take / 2 : 1; break;
	case 3: errno = EAGAIN; *ret = -1; mc_obs("wr-eagain"); return 1;
	case 4: errno = EINTR; *ret = -1; mc_obs("wr-eintr"); return 1;
	default: errno = EPIPE; *ret = -1; io_error_injected = 1; mc_obs("wr-epipe"); return 1;
	}
	for (i = 0; i < (size_t)take; i++)
		if (((const unsigned char *)buf)[i] != pat(sink_off + i))
			mc_fail("pump-stream", "output byte %ld is %d, input byte at that offset was %d (loss, duplication or reordering)",
				sink_off + (long)i, ((const unsigned char *)buf)[i], pat(sink_off + i));
	sink_off += take;
	mc_obs("wr%ld", take);
	*ret = take;
	return 1;
}

static int shut_hook(int fd, int how)
{
	if (fd != TO_FD)
		return 0;
	if (how != SHUT_WR)
		mc_fail("pump-eof-order", "shutdown(%d) on the output", how);
	if (!relay_eof)
		mc_fail("pump-eof-order", "output shut down although RELAY_EOF was not requested");
	if (!eof_returned || sink_off != L)
		mc_fail("pump-eof-order", "output shut down with %ld of %ld bytes delivered (eof seen: %d)", sink_off, L, eof_returned);
	shutdown_calls++;
	mc_obs("shutdown");
	return 1;
}

static void new_pump(long len, long base)
{
	ip = malloc(sizeof(*ip));
	memset(ip, 0xbe, sizeof(*ip));
	IV_FD_PUMP_INIT(ip);
	ip->from_fd = FROM_FD;
	ip->to_fd = TO_FD;
	ip->cookie = (void *)&ip;
	ip->set_bands = set_bands;
	ip->flags = relay_eof ? IV_FD_PUMP_FLAG_RELAY_EOF : 0;
	L = len; pat_base = base;
	src_off = sink_off = 0;
	eof_returned = shutdown_calls = io_error_injected = 0;
	bands_set = 0;
	iv_fd_pump_init(ip);
	if (!bands_set || band_in != 1 || band_out != 0)
		mc_fail("pump-bands", "after init the pump requests (in=%d,out=%d), expected (1,0)", band_in, band_out);
}

static void free_pump(void)
{
	memset(ip, 0xbe, sizeof(*ip));
	free(ip);
	ip = NULL;
}

/* drive one pump to the end; returns 0 done, -1 error, 1 destroyed early */
static int drive_rw(void)
{
	int step, ret, done = 0;
	for (step = 0; step < 200; step++) {
		uint64_t h = 0;
		long buffered = src_off - sink_off;
		int exp_ret, exp_in, exp_out;

		h = mc_hash_u64(h, pump_idx); h = mc_hash_u64(h, L); h = mc_hash_u64(h, src_off); h = mc_hash_u64(h, sink_off);
		h = mc_hash_u64(h, ip->bytes); h = mc_hash_u64(h, ip->full); h = mc_hash_u64(h, ip->saw_fin);
		h = mc_hash_u64(h, band_in * 2 + band_out); h = mc_hash_u64(h, eof_returned * 2 + shutdown_calls);
		h = mc_hash_u64(h, relay_eof * 2 + allow_err); h = mc_hash_u64(h, done); h = mc_hash_u64(h, ip->buf != NULL);
		mc_state(h);

		if (done) {
			/* "returns 0 exactly from then on" */
			ret = iv_fd_pump_pump(ip);
			if (ret != 0 || !iv_fd_pump_is_done(ip))
				mc_fail("pump-return", "pump returned %d after it had reported completion", ret);
			return 0;
		}
		if (!band_in && !band_out)
			mc_fail("pump-bands", "pump requests no band although it is not done (buffered %ld, eof seen %d)", buffered, eof_returned);
		if (mc_choose(2, MC_ACTION, "destroy?")) {
			mc_obs("destroy");
			bands_set = 0;
			iv_fd_pump_destroy(ip);
			if (!bands_set || band_in || band_out)
				mc_fail("pump-bands", "destroy of an unfinished pump did not clear the requested bands");
			return 1;
		}
		io_error_injected = 0;
		mc_mark_callback();
		ret = iv_fd_pump_pump(ip);
		buffered = src_off - sink_off;
		mc_obs("pump=%d", ret);
		exp_ret = io_error_injected ? -1 : (eof_returned && buffered == 0) ? 0 : 1;
		if (ret != exp_ret)
			mc_fail("pump-return", "pump returned %d, expected %d (eof seen %d, buffered %ld, io error %d, delivered %ld of %ld)",
				ret, exp_ret, eof_returned, buffered, io_error_injected, sink_off, L);
		if (ret < 0)
			return -1;
		if (ret == 0) {
			if (sink_off != L)
				mc_fail("pump-stream", "pump reports completion with %ld of %ld bytes delivered", sink_off, L);
			if (relay_eof && shutdown_calls != 1)
				mc_fail("pump-eof-order", "completion with RELAY_EOF but output shut down %d times", shutdown_calls);
			if (band_in || band_out)
				mc_fail("pump-bands", "bands (%d,%d) requested after completion", band_in, band_out);
			if (!iv_fd_pump_is_done(ip))
				mc_fail("pump-return", "iv_fd_pump_is_done() false after pump returned 0");
			done = 1;
			continue;
		}
		exp_in = !eof_returned && buffered < BUFSZ;
		exp_out = buffered > 0;
		if (band_in != exp_in || band_out != exp_out)
			mc_fail("pump-bands", "pump requests (in=%d,out=%d) but its state calls for (in=%d,out=%d): buffered %ld, eof seen %d",
				band_in, band_out, exp_in, exp_out, buffered, eof_returned);
		if (iv_fd_pump_is_done(ip))
			mc_fail("pump-return", "iv_fd_pump_is_done() true while pump returns 1");
	}
	mc_fail("pump-stall", "pump not finished after 200 calls");
}

static void exec_rw(void)
{
	static const long lens[] = { 0, 1, 4095, 4096, 4097, 8193, 5000 };
	int r;
	env_init();
	env_read_override = rd_override;
	env_write_override = wr_override;
	env_shutdown_hook = shut_hook;
	env_sc_errno[ENV_SC_SPLICE] = ENOSYS;
	allow_err = mc_arg_int("errors", 1);
	relay_eof = mc_choose(2, MC_CONFIG, "relay_eof");
	allocs0 = env_lib_allocs_live;
	iv_init();
	pump_idx = 0;
	new_pump(lens[mc_choose(7, MC_CONFIG, "len")], 0);
	mc_obs("L=%ld relay=%d", L, relay_eof);
	r = drive_rw();
	if (r <= 0) {
		iv_fd_pump_destroy(ip);
		if (band_in || band_out)
			mc_fail("pump-bands", "after iv_fd_pump_destroy() (pump had %s) the bands (in=%d,out=%d) are still requested",
				r == 0 ? "completed" : "failed", band_in, band_out);
	}
	free_pump();
	/* second pump in the same thread: buffer cache reuse must not leak stale bytes */
	pump_idx = 1;
	new_pump(5, 100);
	r = drive_rw();
	if (r <= 0)
		iv_fd_pump_destroy(ip);
	free_pump();
	iv_deinit();
	if (env_lib_allocs_live != allocs0)
		mc_fail("leak-mem", "%ld library allocations live after iv_deinit", env_lib_allocs_live - allocs0);
	if (env_lib_fds_open())
		mc_fail("leak-fd", "library descriptors left open after iv_deinit");
	mc_done();
}

/* --------------------------------------------------------- splice mode */
static int s_from_r, s_from_w, s_to_w, s_to_r;
static long fed, drained;
static int writer_closed, sink_reader_closed, sink_eof_seen;

static void mkchan(int kind, int *r, int *w)
{
	int fd[2];
	if (kind == 0) {
		if (pipe(fd) < 0)
			mc_broken("pipe");
		fcntl(fd[1], F_SETPIPE_SZ, 4096);
		*r = fd[0]; *w = fd[1];
	} else {
		if (socketpair(AF_UNIX, SOCK_STREAM, 0, fd) < 0)
			mc_broken("socketpair");
		*r = fd[0]; *w = fd[1];
	}
	fcntl(*r, F_SETFL, fcntl(*r, F_GETFL) | O_NONBLOCK);
	fcntl(*w, F_SETFL, fcntl(*w, F_GETFL) | O_NONBLOCK);
}

static long do_feed(long k)
{
	static unsigned char buf[70000];
	long i, done = 0;
	ssize_t r;
	for (i = 0; i < k; i++)
		buf[i] = pat(fed + i);
	while (done < k) {
		r = write(s_from_w, buf + done, k - done);
		if (r <= 0)
			break;
		done += r;
	}
	fed += done;
	return done;
}

static long do_drain(long k)
{
	static unsigned char buf[70000];
	long got = 0, i;
	ssize_t r;
	while (got < k) {
		r = read(s_to_r, buf, (k - got) > (long)sizeof(buf) ? (long)sizeof(buf) : (k - got));
		if (r == 0) {
			sink_eof_seen = 1;
			break;
		}
		if (r < 0)
			break;
		for (i = 0; i < r; i++)
			if (buf[i] != pat(drained + i))
				mc_fail("pump-stream", "output byte %ld is %d, expected %d (loss, duplication or reordering)", drained + i, buf[i], pat(drained + i));
		drained += r;
		got += r;
	}
	return got;
}

static int ready(int fd, int ev)
{
	struct pollfd p = { fd, ev, 0 };
	poll(&p, 1, 0);
	return !!(p.revents & (ev | POLLHUP | POLLERR));
}

static int sink_has_data(void)
{
	int n = 0;
	if (sink_reader_closed)
		return 0;
	ioctl(s_to_r, FIONREAD, &n);
	return n > 0;
}

static int kicks_left, arrivals_left;

/* between the would-block result of the input splice and whatever the pump does next, a byte arrives */
static void after_eagain(const char *what, int fd)
{
	(void)what;
	if (fd != s_from_r || arrivals_left <= 0 || writer_closed)
		return;
	if (mc_choose(2, MC_STIM, "arrives-after-eagain")) {
		arrivals_left--;
		mc_obs("arrival-inside-pump-call");
		do_feed(1);
	}
}

/* pipe2() goes missing at any of its calls (sticky), e.g. a seccomp profile applied after start-up */
static int pipe2_fault(int sc)
{
	if (sc != ENV_SC_PIPE2)
		return 0;
	return mc_choose(2, MC_FAULT, "pipe2-enosys") ? ENOSYS : 0;
}

static void exec_splice(void)
{
	static const long feeds[] = { 1, 4096, 70000 };
	int fk, tk, step, done = 0, errored = 0, destroyed = 0, noprog = 0;
	long first;

	env_init();
	kicks_left = mc_arg_int("kicks", 1);
	env_after_eagain_hook = after_eagain;
	if (mc_arg_int("no_pipe2", 0))
		env_sc_errno[ENV_SC_PIPE2] = ENOSYS;
	if (mc_arg_int("sc_fault", 0))
		env_sc_fault_hook = pipe2_fault;
	relay_eof = mc_choose(2, MC_CONFIG, "relay_eof");
	fk = mc_choose(2, MC_CONFIG, "from-kind");
	tk = mc_choose(2, MC_CONFIG, "to-kind");
	first = feeds[mc_choose(3, MC_CONFIG, "first-feed")];
	allocs0 = env_lib_allocs_live;
	iv_init();
	mkchan(fk, &s_from_r, &s_from_w);
	mkchan(tk, &s_to_r, &s_to_w);
	ip = malloc(sizeof(*ip));
	memset(ip, 0xbe, sizeof(*ip));
	IV_FD_PUMP_INIT(ip);
	ip->from_fd = s_from_r;
	ip->to_fd = s_to_w;
	ip->cookie = (void *)&ip;
	ip->set_bands = set_bands;
	ip->flags = relay_eof ? IV_FD_PUMP_FLAG_RELAY_EOF : 0;
	iv_fd_pump_init(ip);
	mc_obs("splice from=%s to=%s first=%ld relay=%d", fk ? "sock" : "pipe", tk ? "sock" : "pipe", first, relay_eof);
	if (band_in != 1 || band_out != 0)
		mc_fail("pump-bands", "after init the pump requests (in=%d,out=%d), expected (1,0)", band_in, band_out);

	for (step = 0; step < 400 && !done && !errored && !destroyed; step++) {
		int can_pump = (band_in && ready(s_from_r, POLLIN)) || (band_out && ready(s_to_w, POLLOUT));
		int nat, c, ret;
		/* natural next step of the environment */
		enum { S_FEED1, S_FEED4K, S_FEEDBIG, S_PUMP, S_DRAIN1, S_DRAIN4K, S_DRAINALL, S_CLOSEW, S_CLOSESINK, S_DESTROY, S_KICK, NS };
		static const char *sn[NS] = { "feed1", "feed4096", "feed70000", "pump", "drain1", "drain4096", "drainall", "closew", "closesink", "destroy", "kick" };
		int ok[NS];
		int order[NS], no = 0, i;

		ok[S_FEED1] = ok[S_FEED4K] = ok[S_FEEDBIG] = !writer_closed && ready(s_from_w, POLLOUT) && fed < 200000;
		ok[S_PUMP] = can_pump;
		ok[S_DRAIN1] = ok[S_DRAIN4K] = ok[S_DRAINALL] = sink_has_data();
		ok[S_CLOSEW] = !writer_closed;
		ok[S_CLOSESINK] = !sink_reader_closed && mc_arg_int("errors", 1);
		ok[S_DESTROY] = 1;
		/* a pump call although no requested band is ready (an initial kick, a stale wake-up): must be harmless */
		ok[S_KICK] = !can_pump && kicks_left > 0;
		if (fed == 0 && !writer_closed)
			nat = first == 1 ? S_FEED1 : first == 4096 ? S_FEED4K : S_FEEDBIG;
		else if (can_pump)
			nat = S_PUMP;
		else if (ok[S_DRAINALL])
			nat = S_DRAINALL;
		else if (!writer_closed)
			nat = S_CLOSEW;
		else
			nat = -1;
		if (nat < 0) {
			if (!band_in && !band_out)
				mc_fail("pump-bands", "pump requests no band although it is not done");
			mc_fail("pump-stall", "nothing left to do but the pump is not done: fed %ld drained %ld, bands (%d,%d), bytes %d full %d saw_fin %d",
				fed, drained, band_in, band_out, ip->bytes, ip->full, ip->saw_fin);
		}
		order[no++] = nat;
		for (i = 0; i < NS; i++)
			if (i != nat && ok[i])
				order[no++] = i;
		c = order[mc_choose(no, MC_ACTION, "step")];
		mc_obs("%s", sn[c]);
		switch (c) {
		case S_FEED1: do_feed(1); break;
		case S_FEED4K: do_feed(4096); break;
		case S_FEEDBIG: do_feed(70000); break;
		case S_DRAIN1: do_drain(1); break;
		case S_DRAIN4K: do_drain(4096); break;
		case S_DRAINALL: do_drain(1000000); break;
		case S_CLOSEW: close(s_from_w); writer_closed = 1; break;
		case S_CLOSESINK: close(s_to_r); sink_reader_closed = 1; break;
		case S_DESTROY:
			bands_set = 0;
			iv_fd_pump_destroy(ip);
			if (!bands_set || band_in || band_out)
				mc_fail("pump-bands", "destroy of an unfinished pump did not clear the requested bands");
			destroyed = 1;
			break;
		case S_KICK:
			kicks_left--;
			arrivals_left = 1;
			/* fall through */
		case S_PUMP: {
			int b0 = ip->bytes, sp0 = 0, kp0 = 0, sp1 = 0, kp1 = 0;
			ioctl(s_from_r, FIONREAD, &sp0);
			if (!sink_reader_closed)
				ioctl(s_to_r, FIONREAD, &kp0);
			mc_mark_callback();
			ret = iv_fd_pump_pump(ip);
			arrivals_left = 0;
			ioctl(s_from_r, FIONREAD, &sp1);
			if (!sink_reader_closed)
				ioctl(s_to_r, FIONREAD, &kp1);
			mc_obs("pump=%d", ret);
			if (ret < 0) {
				if (!sink_reader_closed)
					mc_fail("pump-return", "pump returned -1 without any I/O error");
				errored = 1;
				break;
			}
			if (ret == 0) {
				done = 1;
				if (band_in || band_out)
					mc_fail("pump-bands", "bands requested after completion");
				break;
			}
			if (!band_in && !band_out)
				mc_fail("pump-bands", "pump requests no band although it returned 1");
			if (!!band_out != !!(ip->bytes > 0))
				mc_fail("pump-bands", "output band %d but %d bytes buffered", band_out, ip->bytes);
			if (band_in && ip->saw_fin)
				mc_fail("pump-bands", "input band requested after end-of-file");
			if (ip->bytes == b0 && sp0 == sp1 && kp0 == kp1) {
				if (++noprog > 6)
					mc_fail("pump-stall", "pump called 6 times on ready bands without moving data");
			} else {
				noprog = 0;
			}
			break;
		}
		}
	}
	if (done) {
		if (!writer_closed)
			mc_fail("pump-return", "pump reports end-of-file but the input is still open");
		if (!sink_reader_closed) {
			do_drain(1000000);
			if (drained != fed)
				mc_fail("pump-stream", "pump reports completion but only %ld of %ld bytes reached the output", drained, fed);
			if (tk == 1) {
				/* socket: EOF visible to the reader iff RELAY_EOF */
				char ch;
				ssize_t r = read(s_to_r, &ch, 1);
				int eof = (r == 0) || sink_eof_seen;
				if (relay_eof && !eof)
					mc_fail("pump-eof-order", "RELAY_EOF requested but the output was not shut down");
				if (!relay_eof && eof)
					mc_fail("pump-eof-order", "output shut down although RELAY_EOF was not requested");
			}
		}
		iv_fd_pump_destroy(ip);
		if (band_in || band_out)
			mc_fail("pump-bands", "after iv_fd_pump_destroy() of a completed pump the bands (in=%d,out=%d) are still requested", band_in, band_out);
	} else if (errored) {
		iv_fd_pump_destroy(ip);
		if (band_in || band_out)
			mc_fail("pump-bands", "after iv_fd_pump_destroy() of a failed pump the bands (in=%d,out=%d) are still requested", band_in, band_out);
	} else if (!destroyed) {
		mc_done();      /* horizon */
	}
	if (!done && !sink_reader_closed) {
		/* whatever reached the sink must be a prefix */
		do_drain(1000000);
	}
	free_pump();

	/* second pump in the same thread: a cached buffer must not carry stale data */
	{
		int a_r, a_w, b_r, b_w, ret, k;
		unsigned char out[64];
		ssize_t r;
		mkchan(0, &a_r, &a_w);
		mkchan(1, &b_r, &b_w);
		ip = malloc(sizeof(*ip));
		memset(ip, 0xbe, sizeof(*ip));
		ip->from_fd = a_r; ip->to_fd = b_w; ip->cookie = (void *)&ip; ip->set_bands = set_bands; ip->flags = 0;
		iv_fd_pump_init(ip);
		if (write(a_w, "0123456789", 10) != 10)
			mc_broken("second pump feed");
		close(a_w);
		for (k = 0; k < 10; k++) {
			ret = iv_fd_pump_pump(ip);
			if (ret <= 0)
				break;
		}
		mc_obs("second=%d", ret);
		if (ret != 0)
			mc_fail("pump-stall", "a second pump in the same thread did not finish 10 bytes + EOF in 10 calls (returned %d)", ret);
		r = read(b_r, out, sizeof(out));
		if (r != 10 || memcmp(out, "0123456789", 10))
			mc_fail("pump-stream", "second pump in the same thread delivered %zd bytes / wrong data (stale buffer contents?)", r);
		iv_fd_pump_destroy(ip);
		free_pump();
		close(a_r); close(b_r); close(b_w);
	}
	iv_deinit();
	if (env_lib_allocs_live != allocs0)
		mc_fail("leak-mem", "%ld library allocations live after iv_deinit", env_lib_allocs_live - allocs0);
	if (env_lib_fds_open()) {
		char b[200];
		env_lib_fds_list(b, sizeof(b));
		mc_fail("leak-fd", "library descriptors left open after iv_deinit: %s", b);
	}
	mc_done();
}

/* many pumps of one thread hold a buffer at the same time (more than the per-thread cache keeps), then all finish */
static void exec_many(void)
{
	enum { N = 26 };
	static struct iv_fd_pump pumps[N];
	static int fr[N], fw[N], tr[N], tw[N], done[N];
	int i, k, n, all, rounds;
	char junk[4096], out[64];

	env_init();
	if (mc_choose(2, MC_CONFIG, "no-splice"))
		env_sc_errno[ENV_SC_SPLICE] = ENOSYS;
	if (mc_arg_int("sc_fault", 0))
		env_sc_fault_hook = pipe2_fault;
	n = 18 + 2 * mc_choose(5, MC_CONFIG, "pumps");     /* 18 .. 26: below, at and above the cache size of 20 */
	mc_obs("many n=%d splice=%d", n, !env_sc_errno[ENV_SC_SPLICE]);
	allocs0 = env_lib_allocs_live;
	iv_init();
	memset(junk, 'j', sizeof(junk));
	for (i = 0; i < n; i++) {
		mkchan(0, &fr[i], &fw[i]);
		mkchan(0, &tr[i], &tw[i]);
		/* block the output: fill the 4096-byte sink pipe */
		while (write(tw[i], junk, sizeof(junk)) > 0)
			;
		memset(&pumps[i], 0xbe, sizeof(pumps[i]));
		pumps[i].from_fd = fr[i];
		pumps[i].to_fd = tw[i];
		pumps[i].cookie = (void *)&ip;
		pumps[i].set_bands = set_bands;
		pumps[i].flags = 0;
		ip = &pumps[i];
		iv_fd_pump_init(&pumps[i]);
		if (write(fw[i], "0123456789", 10) != 10)
			mc_broken("feed");
		close(fw[i]);
		if (iv_fd_pump_pump(&pumps[i]) != 1)
			mc_fail("pump-return", "pump %d with a blocked output did not return 1", i);
		mc_mark_callback();
	}
	/* unblock every sink and run all pumps to completion */
	for (i = 0; i < n; i++)
		while (read(tr[i], junk, sizeof(junk)) > 0)
			;
	for (rounds = 0, all = 0; rounds < 20 && !all; rounds++) {
		all = 1;
		for (i = 0; i < n; i++) {
			if (done[i])
				continue;
			k = iv_fd_pump_pump(&pumps[i]);
			if (k < 0)
				mc_fail("pump-return", "pump %d returned -1 without an I/O error", i);
			if (k == 0)
				done[i] = 1;
			else
				all = 0;
		}
	}
	if (!all)
		mc_fail("pump-stall", "not all of %d concurrent pumps finished", n);
	for (i = 0; i < n; i++) {
		ssize_t r = read(tr[i], out, sizeof(out));
		if (r != 10 || memcmp(out, "0123456789", 10))
			mc_fail("pump-stream", "pump %d of %d concurrent ones delivered %zd bytes / wrong data", i, n, r);
		iv_fd_pump_destroy(&pumps[i]);
		close(fr[i]); close(tr[i]); close(tw[i]);
	}
	iv_deinit();
	if (env_lib_allocs_live != allocs0)
		mc_fail("leak-mem", "%ld library allocations live after iv_deinit (%d concurrent pumps)", env_lib_allocs_live - allocs0, n);
	if (env_lib_fds_open()) {
		char b[300];
		env_lib_fds_list(b, sizeof(b));
		mc_fail("leak-fd", "library descriptors left open after iv_deinit with %d concurrent pumps: %s", n, b);
	}
	mc_done();
}

static void exec_one(void)
{
	if (!strcmp(mc_arg("mode", "rw"), "many"))
		exec_many();
	if (!strcmp(mc_arg("mode", "rw"), "rw"))
		exec_rw();
	else
		exec_splice();
}

int main(int argc, char **argv)
{
	static const struct mc_harness h = { .name = "h_pump", .exec = exec_one, .timeout_s = 20 };
	return mc_main(argc, argv, &h);
}
