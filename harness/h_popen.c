/*
 * h_popen: iv_popen (property C19).  Single-threaded, virtual clock,
 * simulated process table; the library's child-side code runs once per
 * execution in a real helper process whose execvp() is replaced by an
 * inspection of descriptors 0/1/2 that reports over a side pipe.
 * Child behaviour x close timing x request type are crossed completely.
 */
#ifndef _GNU_SOURCE
#define _GNU_SOURCE
#endif
#include <dirent.h>
#include <errno.h>
#include <fcntl.h>
#include <signal.h>
#include <stdio.h>
#include <stdlib.h>
#include <string.h>
#include <unistd.h>
#include <sys/stat.h>
#include <sys/sysmacros.h>
#include <sys/wait.h>
#include <iv.h>
#include <iv_popen.h>
#include "mc.h"
#include "env.h"

extern int (*env_execvp_hook)(const char *file, char *const argv[]);

enum { S_EXIT_AT_ONCE, S_DIE_TERM1, S_DIE_TERM2, S_DIE_TERM3, S_DIE_TERM5, S_DIE_ON_KILL,
       S_EXIT_BLOCK0, S_EXIT_BLOCK1, S_EXIT_BLOCK2, S_EXIT_BLOCK3, S_EXIT_BLOCK6, S_EXIT_BLOCK7,
       S_EXIT_WAKE0, S_EXIT_WAKE1, S_EXIT_WAKE2, S_EXIT_WAKE6, S_STOPCONT_TERM1, S_STOPCONT_IGNORE, NSCRIPT };
static const char *sname[NSCRIPT] = { "exits-at-once", "dies-on-1st-TERM", "dies-on-2nd-TERM", "dies-on-3rd-TERM", "dies-on-5th-TERM",
	"ignores-TERM", "exits-at-blocking-point-0", "exits-at-blocking-point-1", "exits-at-blocking-point-2", "exits-at-blocking-point-3",
	"exits-at-blocking-point-6", "exits-at-blocking-point-7", "exits-as-sleep-0-ends", "exits-as-sleep-1-ends", "exits-as-sleep-2-ends",
	"exits-as-sleep-6-ends", "stops,continues,dies-on-1st-TERM", "stops,continues,ignores-TERM" };
enum { CL_IMMEDIATE, CL_TIMER_NOW, CL_TIMER_1S, CL_TIMER_7S, CL_NEVER, NCLOSE };
static const char *cname[NCLOSE] = { "close-right-after-submit", "close-from-timer-now", "close-from-timer-1s", "close-from-timer-7s", "never-closed" };

static int script, closemode, type_r;
static struct iv_popen_request *req;
static int data_fd = -1, side[2];
static struct env_proc *child, *stranger;
static int sigchld_due, nblocks, closed, stopcont_phase;
static struct timespec close_time;
static struct iv_timer close_timer;
static char *argvv[] = { "prog", NULL };
static long allocs0;

struct report { ino_t ino[3]; int isnull[3]; int ispipe[3]; int accmode[3]; int extra_pipe_fds; };

/* runs in the helper process instead of the program */
static int exec_hook(const char *file, char *const argv[])
{
	struct report r;
	struct stat st, nul;
	DIR *d;
	struct dirent *de;
	int i;
	(void)file; (void)argv;
	memset(&r, 0, sizeof(r));
	stat("/dev/null", &nul);
	for (i = 0; i < 3; i++) {
		if (fstat(i, &st) < 0)
			continue;
		r.ino[i] = st.st_ino;
		r.isnull[i] = S_ISCHR(st.st_mode) && st.st_rdev == nul.st_rdev;
		r.ispipe[i] = S_ISFIFO(st.st_mode);
		r.accmode[i] = fcntl(i, F_GETFL) & O_ACCMODE;
	}
	/* any other descriptor that is still an end of the data pipe? */
	d = opendir("/proc/self/fd");
	while (d && (de = readdir(d)) != NULL) {
		int fd = atoi(de->d_name);
		if (de->d_name[0] == '.' || fd <= 2 || fd == dirfd(d) || fd == side[1])
			continue;
		if (fstat(fd, &st) == 0 && S_ISFIFO(st.st_mode) && (st.st_ino == r.ino[0] || st.st_ino == r.ino[1]) &&
		    (r.ispipe[0] || r.ispipe[1]))
			r.extra_pipe_fds++;
	}
	if (type_r && r.ispipe[1])
		if (write(1, "tok", 3) != 3) {}
	if (write(side[1], &r, sizeof(r)) != sizeof(r))
		_exit(78);
	_exit(77);
}

static void child_dies(int status)
{
	if (child->state == PR_ZOMBIE || child->state == PR_REAPED)
		return;
	if (stranger && stranger->state == PR_RUNNING)
		env_proc_change(stranger, ENV_ST_EXIT(1));      /* an unrelated child ends first; one SIGCHLD covers both */
	env_proc_change(child, status);
	sigchld_due = 1;
	mc_obs("child:%s", WIFEXITED(status) ? "exit" : "killed");
}

static void fork_hook(struct env_proc *p)
{
	child = p;
	if (script == S_EXIT_AT_ONCE)
		child_dies(ENV_ST_EXIT(0));
}

static void kill_hook(struct env_proc *p, int sig)
{
	int nterm = 0, i;
	for (i = 0; i < p->nsig; i++)
		nterm += p->sigs[i] == SIGTERM;
	mc_obs("kill(%s)@%lld", sig == SIGTERM ? "TERM" : sig == SIGKILL ? "KILL" : "?", env_ts_diff_ns(&env_now, &close_time) / 1000000);
	if (sig == SIGKILL)
		child_dies(ENV_ST_KILLED(SIGKILL));
	else if (sig == SIGTERM) {
		if ((script == S_STOPCONT_TERM1 && nterm >= 1) || (script == S_DIE_TERM1 && nterm >= 1) || (script == S_DIE_TERM2 && nterm >= 2) ||
		    (script == S_DIE_TERM3 && nterm >= 3) || (script == S_DIE_TERM5 && nterm >= 5))
			child_dies(ENV_ST_KILLED(SIGTERM));
	}
}

static void do_close(const char *how)
{
	mc_obs("close(%s)", how);
	close_time = env_now;
	closed = 1;
	iv_popen_request_close(req);
	/* the request structure is the caller's again */
	memset(req, 0xbe, sizeof(*req));
	free(req);
	req = NULL;
	if (data_fd >= 0) {
		close(data_fd);
		data_fd = -1;
	}
}

static void close_timer_cb(void *dummy)
{
	(void)dummy;
	do_close("timer");
}

static int would_block(struct env_wait *w)
{
	static const int at[NSCRIPT] = { -1, -1, -1, -1, -1, -1, 0, 1, 2, 3, 6, 7, -1, -1, -1, -1, -1, -1 };
	static const int atwake[NSCRIPT] = { -1, -1, -1, -1, -1, -1, -1, -1, -1, -1, -1, -1, 0, 1, 2, 6, -1, -1 };
	int k = nblocks++;
	int can_timeout = w->timeout_ns >= 0 || w->has_timerfd_deadline;
	if (sigchld_due) {
		sigchld_due = 0;
		mc_obs("SIGCHLD");
		raise(SIGCHLD);
		return ENV_WB_REPOLL;
	}
	if ((script == S_STOPCONT_TERM1 || script == S_STOPCONT_IGNORE) && stopcont_phase < 2 && child->state != PR_ZOMBIE && child->state != PR_REAPED) {
		/* job control: the child is stopped, later continued; it is alive all along */
		env_proc_change(child, stopcont_phase == 0 ? ENV_ST_STOPPED(SIGSTOP) : ENV_ST_CONTINUED);
		mc_obs(stopcont_phase == 0 ? "child:stopped" : "child:continued");
		stopcont_phase++;
		raise(SIGCHLD);
		return ENV_WB_REPOLL;
	}
	if (atwake[script] >= 0 && child->state == PR_RUNNING && (atwake[script] == k || !can_timeout)) {
		/* the child ends at the very instant the loop's sleep is over: SIGCHLD and the timer are handled in the same round */
		if (can_timeout) {
			struct timespec t = w->timeout_ns >= 0 ? w->deadline : w->timerfd_deadline;
			if (w->has_timerfd_deadline && env_ts_cmp(&w->timerfd_deadline, &t) < 0)
				t = w->timerfd_deadline;
			env_set_time(&t);
		}
		child_dies(ENV_ST_EXIT(0));
		sigchld_due = 0;
		mc_obs("SIGCHLD(at wake-up)");
		raise(SIGCHLD);
		return ENV_WB_REPOLL;
	}
	if (at[script] == k || (at[script] > k && w->timeout_ns < 0 && !w->has_timerfd_deadline && child->state == PR_RUNNING)) {
		child_dies(ENV_ST_EXIT(0));
		sigchld_due = 0;
		mc_obs("SIGCHLD");
		raise(SIGCHLD);
		return ENV_WB_REPOLL;
	}
	if (w->timeout_ns < 0 && !w->has_timerfd_deadline) {
		if (closemode == CL_NEVER && (script == S_STOPCONT_TERM1 || script == S_STOPCONT_IGNORE || script == S_DIE_TERM1 || script == S_DIE_TERM2 || script == S_DIE_TERM3 || script == S_DIE_TERM5 || script == S_DIE_ON_KILL)) {
			/* nobody closes the request and the child never exits on its own: a legitimate steady state */
			mc_obs("steady");
			mc_done();
		}
		mc_fail("popen-stuck", "loop blocks for good: child state %d, request %s, %d signals sent", child ? child->state : -1,
			closed ? "closed" : "open", child ? child->nsig : 0);
	}
	mc_mark_callback();
	return ENV_WB_TIMEOUT;
}

static void check_signal_log(void)
{
	int i;
	if (!child)
		return;
	if (child->kills_after_reap)
		mc_fail("kill-after-reap", "%d signal(s) sent to the child's process id after its termination had been reaped", child->kills_after_reap);
	for (i = 0; i < child->nsig; i++) {
		int expect = i < 5 ? SIGTERM : SIGKILL;
		long long at_ms = env_ts_diff_ns(&child->sigtime[i], &close_time) / 1000000;
		if (child->sigs[i] != expect)
			mc_fail("popen-signals", "signal #%d sent to the child is %d, expected %s", i + 1, child->sigs[i], i < 5 ? "SIGTERM" : "SIGKILL");
		if (at_ms != 5000LL * i)
			mc_fail("popen-signals", "signal #%d sent %lld ms after the close, expected %d ms", i + 1, at_ms, 5000 * i);
	}
	if (!closed && child->nsig)
		mc_fail("popen-signals", "child signalled although the request was never closed");
}

static void exec_one(void)
{
	static const char *excl[4] = { "", "epoll-timerfd", "epoll-timerfd epoll", "epoll-timerfd epoll ppoll" };
	struct report r;
	struct stat st;
	int method;
	char tok[4];

	env_init();
	env_sim_procs = 1;
	env_fork_real_helper = 1;
	env_fork_hook = fork_hook;
	env_kill_hook = kill_hook;
	env_execvp_hook = exec_hook;
	env_wait_ops.would_block = would_block;
	method = mc_choose(4, MC_CONFIG, "method");
	env_exclude_methods = excl[method];
	type_r = mc_choose(2, MC_CONFIG, "type") == 0;
	script = mc_choose(NSCRIPT, MC_CONFIG, "child-script");
	closemode = mc_choose(NCLOSE, MC_CONFIG, "close-mode");
	if (mc_choose(2, MC_CONFIG, "unrelated-child")) {
		env_proc_spawn_plain();
		stranger = &env_procs[env_nprocs - 1];
	}
	mc_obs("m%d type=%s child=%s %s", method, type_r ? "r" : "w", sname[script], cname[closemode]);
	if (pipe(side) < 0)
		mc_broken("pipe");
	allocs0 = env_lib_allocs_live;
	iv_init();
	req = malloc(sizeof(*req));
	memset(req, 0xbe, sizeof(*req));
	IV_POPEN_REQUEST_INIT(req);
	req->file = "prog";
	req->argv = argvv;
	req->type = type_r ? "r" : "w";
	data_fd = iv_popen_request_submit(req);
	if (data_fd < 0)
		mc_fail("try-failed", "iv_popen_request_submit failed");
	env_forget_fd(data_fd);

	/* wiring report from the helper */
	close(side[1]);
	if (read(side[0], &r, sizeof(r)) != sizeof(r))
		mc_fail("popen-wiring", "the child side never reached exec (no report)");
	close(side[0]);
	fstat(data_fd, &st);
	if (type_r) {
		if (!r.ispipe[1] || r.ino[1] != st.st_ino || r.accmode[1] != O_WRONLY)
			mc_fail("popen-wiring", "type r: the child's standard output is not the write end of the pipe handed to the caller");
		if ((fcntl(data_fd, F_GETFL) & O_ACCMODE) != O_RDONLY)
			mc_fail("popen-wiring", "type r: the descriptor handed to the caller is not the read end");
		if (!r.isnull[0] || !r.isnull[2])
			mc_fail("popen-wiring", "type r: the child's stdin/stderr are not the null device (%d,%d)", r.isnull[0], r.isnull[2]);
		fcntl(data_fd, F_SETFL, fcntl(data_fd, F_GETFL) | O_NONBLOCK);
		if (read(data_fd, tok, 3) != 3 || memcmp(tok, "tok", 3))
			mc_fail("popen-wiring", "type r: bytes written by the child to its standard output do not arrive on the caller's descriptor");
	} else {
		if (!r.ispipe[0] || r.ino[0] != st.st_ino || r.accmode[0] != O_RDONLY)
			mc_fail("popen-wiring", "type w: the child's standard input is not the read end of the pipe handed to the caller");
		if ((fcntl(data_fd, F_GETFL) & O_ACCMODE) != O_WRONLY)
			mc_fail("popen-wiring", "type w: the descriptor handed to the caller is not the write end");
		if (!r.isnull[1] || !r.isnull[2])
			mc_fail("popen-wiring", "type w: the child's stdout/stderr are not the null device (%d,%d)", r.isnull[1], r.isnull[2]);
	}
	if (r.extra_pipe_fds)
		mc_fail("popen-wiring", "the child still holds %d other descriptor(s) of the data pipe", r.extra_pipe_fds);

	IV_TIMER_INIT(&close_timer);
	if (closemode == CL_IMMEDIATE) {
		do_close("immediate");
	} else if (closemode != CL_NEVER) {
		close_timer.expires = env_now;
		close_timer.expires.tv_sec += closemode == CL_TIMER_1S ? 1 : closemode == CL_TIMER_7S ? 7 : 0;
		close_timer.handler = close_timer_cb;
		iv_timer_register(&close_timer);
	}
	mc_obs("main");
	iv_main();
	mc_obs("ret");
	check_signal_log();
	if (child->state != PR_REAPED)
		mc_fail("popen-zombie", "iv_main returned but the child (state %d) was not reaped", child->state);
	if (stranger && stranger->nqueue)
		mc_fail("popen-zombie", "an unrelated child that ended together with the popen child was left unreaped");
	if (req != NULL) {
		/* never closed: the child ended by itself; closing now must be harmless */
		do_close("after-exit");
		iv_main();
	}
	check_signal_log();
	if (mc_arg_int("second", 1) && mc_choose(2, MC_CONFIG, "second-request")) {
		/* a second request in the same thread, closed while its child (dies on the 1st TERM) is still running */
		struct env_proc *first = child;
		int fd2;
		mc_obs("second-request");
		script = S_DIE_TERM1;
		closed = 0;
		nblocks = 0;
		env_fork_real_helper = 0;
		req = malloc(sizeof(*req));
		memset(req, 0xbe, sizeof(*req));
		IV_POPEN_REQUEST_INIT(req);
		req->file = "prog";
		req->argv = argvv;
		req->type = "r";
		fd2 = iv_popen_request_submit(req);
		if (fd2 < 0)
			mc_fail("try-failed", "second iv_popen_request_submit failed");
		env_forget_fd(fd2);
		data_fd = fd2;
		if (child == first)
			mc_broken("second child not created");
		do_close("second-immediate");
		iv_main();
		if (child->state != PR_REAPED)
			mc_fail("popen-zombie", "second request: iv_main returned but the child (state %d, %d signals sent) was not terminated and reaped", child->state, child->nsig);
		check_signal_log();
	}
	iv_deinit();
	if (env_lib_allocs_live != allocs0)
		mc_fail("leak-mem", "%ld library allocations live after iv_deinit", env_lib_allocs_live - allocs0);
	if (env_lib_fds_open()) {
		char b[200];
		env_lib_fds_list(b, sizeof(b));
		mc_fail("leak-fd", "library descriptors left open after iv_deinit: %s", b);
	}
	mc_done();
}

int main(int argc, char **argv)
{
	static const struct mc_harness h = { .name = "h_popen", .exec = exec_one, .timeout_s = 30 };
	return mc_main(argc, argv, &h);
}
