/*
 * h_signal: iv_signal fan-out (property C10; C14 runs).
 * Threads: L0 (thread 0) and L1 run event loops and own the interests; the
 * driver D (a plain thread without a loop) executes the program: register /
 * unregister (executed in the owning thread via a command event), deliver
 * SIGUSR1 to L0 / L1 / D, fork a child that raises the signal.  Register,
 * unregister and the signal handler itself are atomic scheduler steps; their
 * order, and the order of everything the loops do in reaction, is enumerated.
 * The oracle is a sequential reference model of the documented fan-out.
 */
#ifndef _GNU_SOURCE
#define _GNU_SOURCE
#endif
#include <errno.h>
#include <signal.h>
#include <stdio.h>
#include <stdlib.h>
#include <string.h>
#include <unistd.h>
#include <sys/wait.h>
#include <iv.h>
#include <iv_event.h>
#include <iv_signal.h>
#include "mc.h"
#include "env.h"
#include "mcsched.h"

#define NI 4
struct interest {
	int thr;            /* owning loop thread: 0 or 1 */
	int sig;            /* SIGUSR1 or SIGUSR2 */
	int flags;
	int present;        /* part of this configuration */
	int reg;
	int pending;        /* a delivery was noted after the last handler start */
	long handled, noted;
};
/* all interests live in one array so that the library's address tie-break is the index order */
static struct iv_signal SGA[NI];
static struct interest I[NI];
static int tid_of[2];               /* scheduler ids of L0, L1 */
static int driver_tid;
static struct iv_event cmd_ev[2];
static volatile int cmd_done[2];
static int cmd_op[2], cmd_arg[2];
static volatile int never;
static volatile int burst_done;
static int burst_left;
static volatile int driver_done;
static int loops_should_exit;
static int hbudget;
static int reg_order[NI] = { 0, 1, 2, 3 };
static int have_usr2;

enum { C_REG, C_UNREG, C_CLEAN, C_EXIT, C_FORK, C_NOP };

static int cur_loop(void)
{
	return sched_self() == tid_of[0] ? 0 : sched_self() == tid_of[1] ? 1 : -1;
}

/* reference model: which interests does a wake walk over one set mark? */
static void model_walk(int thread_set, int thr, int sig)
{
	int i, first_excl = -1;
	for (i = 0; i < NI; i++) {
		if (I[i].reg != 1 || I[i].sig != sig)
			continue;
		if (!!(I[i].flags & IV_SIGNAL_FLAG_THIS_THREAD) != thread_set)
			continue;
		if (thread_set && I[i].thr != thr)
			continue;
		if ((I[i].flags & IV_SIGNAL_FLAG_EXCLUSIVE) && first_excl < 0)
			first_excl = i;
	}
	for (i = 0; i < NI; i++) {
		if (I[i].reg != 1 || I[i].sig != sig)
			continue;
		if (!!(I[i].flags & IV_SIGNAL_FLAG_THIS_THREAD) != thread_set)
			continue;
		if (thread_set && I[i].thr != thr)
			continue;
		if (first_excl >= 0 && i != first_excl)
			continue;
		I[i].pending = 1;
		I[i].noted++;
	}
}

static int set_nonempty(int thread_set, int thr, int sig)
{
	int i;
	for (i = 0; i < NI; i++)
		if (I[i].reg == 1 && I[i].sig == sig && !!(I[i].flags & IV_SIGNAL_FLAG_THIS_THREAD) == thread_set && (!thread_set || I[i].thr == thr))
			return 1;
	return 0;
}

/* a delivery received by loop thread `thr` (0/1) or by a thread without a loop (-1) */
static void model_deliver(int thr, int sig)
{
	if (thr >= 0 && set_nonempty(1, thr, sig))
		model_walk(1, thr, sig);
	else
		model_walk(0, 0, sig);
}

static int others_for(int sig)
{
	int q, n = 0;
	for (q = 0; q < NI; q++)
		n += I[q].reg == 1 && I[q].sig == sig;
	return n;
}

static void app_sigusr1_wrapper_check(void);

static void sig_handler_cb(void *_i)
{
	int i = (int)(long)_i, c, k, me = cur_loop();
	if (me != I[i].thr)
		mc_fail("sig-thread", "handler of interest %d ran in loop %d, registered in loop %d", i, me, I[i].thr);
	if (!I[i].reg)
		mc_fail("stale-callback", "handler of interest %d ran although it is unregistered", i);
	I[i].pending = 0;
	I[i].handled++;
	/* a delivery landing between the loop's wake-up and the handler start legitimately costs one more
	 * invocation, so the bound is the number of deliveries noted, not the pending flag */
	if (I[i].handled > I[i].noted)
		mc_fail("sig-over", "handler of interest %d (flags %d, loop %d) ran %ld times for %ld deliveries that should reach it", i, I[i].flags, I[i].thr, I[i].handled, I[i].noted);
	mc_mark_callback();
	mc_obs("L%d:h%d", me, i);
	if (hbudget > 0) {
		c = mc_choose(4, MC_ACTION, "sig-handler-act");
		if (c)
			hbudget--;
		switch (c) {
		case 1:         /* the signal arrives again while the handler is running */
			mc_obs("L%d:raise-in-handler", me);
			sched_atomic_begin();
			model_deliver(me, I[i].sig);
			sched_raise(I[i].sig);
			sched_atomic_end();
			break;
		case 2:         /* unregister self from own handler */
			mc_obs("L%d:unreg%d(self)", me, i);
			sched_atomic_begin();
			iv_signal_unregister(&SGA[i]);
			I[i].reg = 0;
			I[i].pending = 0;
			sched_atomic_end();
			break;
		case 3:         /* unregister another interest of this loop */
			for (k = 0; k < NI; k++)
				if (k != i && I[k].reg && I[k].thr == me)
					break;
			if (k < NI) {
				int was_pending = I[k].pending, excl = I[k].flags & IV_SIGNAL_FLAG_EXCLUSIVE, tset = !!(I[k].flags & IV_SIGNAL_FLAG_THIS_THREAD);
				mc_obs("L%d:unreg%d(other)", me, k);
				sched_atomic_begin();
				iv_signal_unregister(&SGA[k]);
				I[k].reg = 0;
				I[k].pending = 0;
				if (was_pending && excl && others_for(I[k].sig))
					model_walk(tset, me, I[k].sig);
				sched_atomic_end();
			}
			break;
		}
	}
	app_sigusr1_wrapper_check();
}

static void app_sigusr1_wrapper_check(void)
{
}

static void do_reg(int i)
{
	IV_SIGNAL_INIT(&SGA[i]);
	SGA[i].signum = I[i].sig;
	SGA[i].flags = I[i].flags;
	SGA[i].cookie = (void *)(long)i;
	SGA[i].handler = sig_handler_cb;
	sched_atomic_begin();
	if (iv_signal_register(&SGA[i]) != 0)
		mc_fail("try-failed", "iv_signal_register failed");
	I[i].reg = 1;
	I[i].pending = 0;
	I[i].noted = I[i].handled = 0;
	sched_atomic_end();
}

static void do_unreg(int i)
{
	int was_pending = I[i].pending, excl = I[i].flags & IV_SIGNAL_FLAG_EXCLUSIVE, tset = !!(I[i].flags & IV_SIGNAL_FLAG_THIS_THREAD);
	int others;
	sched_atomic_begin();
	iv_signal_unregister(&SGA[i]);
	I[i].reg = 0;
	I[i].pending = 0;
	others = others_for(I[i].sig);
	/* a delivery noted for an exclusive interest that goes away is handed on within its set */
	if (was_pending && excl && others)
		model_walk(tset, I[i].thr, I[i].sig);
	if (!others) {
		struct sigaction sa;
		sigaction(I[i].sig, NULL, &sa);
		if (sa.sa_handler != SIG_DFL)
			mc_fail("sig-disposition", "default disposition not restored after the last interest was unregistered");
	}
	sched_atomic_end();
}

static void cmd_handler(void *_l)
{
	int l = (int)(long)_l, i;
	switch (cmd_op[l]) {
	case C_REG: mc_obs("L%d:reg%d", l, cmd_arg[l]); do_reg(cmd_arg[l]); break;
	case C_UNREG: mc_obs("L%d:unreg%d", l, cmd_arg[l]); if (I[cmd_arg[l]].reg) do_unreg(cmd_arg[l]); break;
	case C_FORK: {
		/* this loop thread forks; the child (which is this thread, with its loop state and its per-thread interests as
		 * copied memory) registers an interest of its own for SIGUSR1 and receives the signal: none of the parent's business */
		pid_t pid;
		int st;
		mc_obs("L%d:fork-child-registers(flags %d)-and-raises", l, cmd_arg[l]);
		sched_atomic_begin();
		pid = env_fork_like_app();
		if (pid == 0) {
			static struct iv_signal cs;
			IV_SIGNAL_INIT(&cs);
			cs.signum = SIGUSR1;
			cs.flags = cmd_arg[l];
			cs.cookie = NULL;
			cs.handler = NULL;
			if (iv_signal_register(&cs) != 0)
				_exit(3);
			raise(SIGUSR1);
			_exit(0);
		}
		while (waitpid(pid, &st, 0) < 0 && errno == EINTR)
			;
		sched_atomic_end();
		if (!WIFEXITED(st) || WEXITSTATUS(st))
			mc_fail("sig-child", "child of loop %d ended with status 0x%x", l, st);
		break;
	}
	case C_NOP:
		break;
	case C_CLEAN:
		for (i = 0; i < NI; i++)
			if (I[i].reg == 1 && I[i].thr == l)
				do_unreg(i);
		break;
	case C_EXIT:
		/* the driver's last post: only once it has returned from it (and said so) may its target go away */
		sched_wait_flag(&driver_done);
		iv_event_unregister(&cmd_ev[l]);
		return;
	}
	cmd_done[l] = 1;
	sched_publish();
}

static void loop_body(int l)
{
	int i;
	iv_init();
	IV_EVENT_INIT(&cmd_ev[l]);
	cmd_ev[l].cookie = (void *)(long)l;
	cmd_ev[l].handler = cmd_handler;
	iv_event_register(&cmd_ev[l]);
	for (i = 0; i < NI; i++) {
		int k = reg_order[i];
		if (I[k].present && I[k].thr == l && I[k].reg == -1) {
			I[k].reg = 0;
			mc_obs("L%d:reg%d", l, k);
			do_reg(k);
		}
	}
	cmd_done[l] = 1;                /* ready */
	sched_publish();
	iv_main();
	iv_deinit();
}

static void l1_thread(void *dummy)
{
	(void)dummy;
	loop_body(1);
}

static void command(int l, int op, int arg)
{
	cmd_done[l] = 0;
	cmd_op[l] = op;
	cmd_arg[l] = arg;
	sched_publish();
	iv_event_post(&cmd_ev[l]);
	sched_wait_flag(&cmd_done[l]);
}

static void check_obligations(const char *when)
{
	int i;
	for (i = 0; i < NI; i++)
		if (I[i].reg && I[i].pending)
			mc_fail("sig-lost", "%s: a delivery that should reach interest %d (flags %d, loop %d) was never followed by its handler (ran %ld times)",
				when, i, I[i].flags, I[i].thr, I[i].handled);
}

static void driver(void *dummy)
{
	int steps, maxsteps = mc_arg_int("steps", 3), i;
	(void)dummy;
	sched_wait_flag(&cmd_done[0]);
	sched_wait_flag(&cmd_done[1]);
	for (steps = 0; steps < maxsteps; steps++) {
		int menu[32], arg[32], n = 0, c;
		/* default first: one process-directed delivery received by the driver thread, then stop */
		if (steps == 0) { menu[n] = 1; arg[n++] = -1; } else { menu[n] = 0; arg[n++] = 0; }
		if (steps != 0) { menu[n] = 1; arg[n++] = -1; }
		menu[n] = 1; arg[n++] = 0;
		menu[n] = 1; arg[n++] = 1;
		if (have_usr2) { menu[n] = 5; arg[n++] = -1; menu[n] = 5; arg[n++] = 0; menu[n] = 6; arg[n++] = 0; }
		for (i = 0; i < NI; i++)
			if (I[i].present) { menu[n] = I[i].reg ? 3 : 2; arg[n++] = i; }
		menu[n] = 4; arg[n++] = 0;
		menu[n] = 4; arg[n++] = 1;
		for (i = 0; i < NI; i++)
			if (I[i].reg && I[i].thr == 0 && I[i].sig == SIGUSR1)
				break;
		if (i < NI && others_for(SIGUSR1)) { menu[n] = 7; arg[n++] = 0; menu[n] = 7; arg[n++] = IV_SIGNAL_FLAG_THIS_THREAD; }
		if (steps == 0) { menu[n] = 0; arg[n++] = 0; }
		c = mc_choose(n, MC_ACTION, "driver-step");
		if (menu[c] == 0)
			break;
		switch (menu[c]) {
		case 1: case 5: {
			int sig = menu[c] == 1 ? SIGUSR1 : SIGUSR2;
			if (!others_for(sig))
				break;          /* default disposition would kill us: not a valid step */
			if (arg[c] < 0) {
				mc_obs("D:deliver%d->D", sig);
				sched_atomic_begin();
				model_deliver(-1, sig);
				sched_raise(sig);
				sched_atomic_end();
			} else {
				mc_obs("D:deliver%d->L%d", sig, arg[c]);
				sched_signal(tid_of[arg[c]], sig);
				sched_yield_point("signalled");
			}
			break;
		}
		case 6:
			/* both signal numbers hit loop 0 back to back: the second may arrive while the first one's handler
			 * is inside the library (its lock and wake-up writes are scheduling points during this burst) */
			if (!others_for(SIGUSR1) || !others_for(SIGUSR2))
				break;
			mc_obs("D:burst USR1+USR2->L0");
			burst_left = 2;
			sched_signal_atomic = 0;
			sched_signal_defer = 1;
			sched_signal(tid_of[0], SIGUSR1);
			sched_yield_point("burst-gap");     /* loop 0 may already be inside the first handler when the second one is sent */
			sched_signal(tid_of[0], SIGUSR2);
			sched_wait_flag(&burst_done);
			burst_done = 0;
			sched_signal_defer = 0;
			/* both signals have arrived; their handlers may still be running (they are not atomic steps during a burst):
			 * a round trip through loop 0's command event makes sure it is back in its loop before atomic steps resume */
			command(0, C_NOP, 0);
			sched_signal_atomic = 1;
			break;
		case 7: command(0, C_FORK, arg[c]); break;
		case 2: command(I[arg[c]].thr, C_REG, arg[c]); break;
		case 3: command(I[arg[c]].thr, C_UNREG, arg[c]); break;
		case 4: {
			/* a forked child raises the signal: nothing may happen in the parent */
			pid_t pid;
			int st, any = 0;
			for (i = 0; i < NI; i++) any += I[i].reg;
			if (!any)
				break;
			if (!others_for(SIGUSR1))
				break;
			mc_obs("D:child-raises(%s)", arg[c] ? "after registering its own interest" : "plain");
			sched_atomic_begin();
			pid = env_fork_like_app();
			if (pid == 0) {
				if (arg[c]) {
					/* the child uses the library itself: own loop state, own interest */
					static struct iv_signal cs;
					iv_init();
					IV_SIGNAL_INIT(&cs);
					cs.signum = SIGUSR1;
					cs.flags = 0;
					cs.cookie = NULL;
					cs.handler = NULL;
					if (iv_signal_register(&cs) != 0)
						_exit(3);
				}
				raise(SIGUSR1);
				_exit(0);
			}
			while (waitpid(pid, &st, 0) < 0 && errno == EINTR)
				;
			sched_atomic_end();
			if (!WIFEXITED(st) || WEXITSTATUS(st))
				mc_fail("sig-child", "child raising the signal ended with status 0x%x (the parent's handler machinery ran in the child?)", st);
			break;
		}
		}
	}
	mc_obs("D:idle");
	sched_wait_flag(&never);
	/* everything has settled (obligations were checked at quiescence): tear down */
	mc_obs("D:teardown");
	command(1, C_CLEAN, 0);
	command(0, C_CLEAN, 0);
	/* final posts; nobody waits for a reply, and the loops wait for driver_done before tearing down */
	cmd_op[1] = cmd_op[0] = C_EXIT;
	sched_publish();
	iv_event_post(&cmd_ev[1]);
	iv_event_post(&cmd_ev[0]);
	driver_done = 1;
	sched_publish();
}

static int on_signal(int tid, int sig)
{
	int l = tid == tid_of[0] ? 0 : tid == tid_of[1] ? 1 : -1, i, any = 0;
	any = others_for(sig);
	(void)i;
	if (!any) {
		/* the last interest went away meanwhile: with the default disposition restored the signal
		 * would terminate the process, which is the application's business, not a scenario */
		mc_obs("L%d:sig-dropped", l);
		if (burst_left > 0 && --burst_left == 0) {
			burst_done = 1;
			sched_publish();
		}
		return 0;
	}
	mc_obs("L%d:sig%d-arrives", l, sig);
	model_deliver(l, sig);
	if (burst_left > 0 && --burst_left == 0) {
		burst_done = 1;
		sched_publish();
	}
	return 1;
}

static int quiescent(void)
{
	check_obligations("all threads idle");
	if (!never) {
		/* the scenario is over and judged; the tear-down only serves the ledger: no schedule exploration in it */
		sched_no_more_choices = 1;
		never = 1;
		return 1;
	}
	mc_fail("stuck", "threads idle for good during tear-down");
}

/* interest configurations: {loop, flags} x up to 3 interests */
#define X IV_SIGNAL_FLAG_EXCLUSIVE
#define T IV_SIGNAL_FLAG_THIS_THREAD
static const struct { int n; int thr[4]; int fl[4]; int usr2mask; } CFG[] = {
	{ 1, { 0 }, { 0 } },
	{ 2, { 0, 1 }, { 0, 0 } },
	{ 2, { 0, 1 }, { X, 0 } },
	{ 2, { 0, 1 }, { 0, X } },
	{ 2, { 0, 0 }, { X, X } },
	{ 2, { 0, 1 }, { T, 0 } },
	{ 2, { 0, 1 }, { T, T } },
	{ 3, { 0, 0, 1 }, { T, 0, 0 } },
	{ 3, { 0, 1, 1 }, { X, X, 0 } },
	{ 3, { 0, 0, 1 }, { T | X, T, 0 } },
	{ 3, { 0, 1, 0 }, { X, 0, T } },
	{ 3, { 1, 0, 1 }, { 0, X, T | X } },
	/* two signal numbers in one set: one USR1 interest, three USR2 interests, every registration order */
	{ 4, { 0, 0, 0, 0 }, { 0, 0, 0, 0 }, 0xe },
	{ 4, { 0, 0, 0, 0 }, { 0, X, 0, 0 }, 0xc },
};
#undef X
#undef T
#define NCFG ((int)(sizeof(CFG) / sizeof(CFG[0])))

static void exec_one(void)
{
	static const char *excl[4] = { "", "epoll-timerfd", "epoll-timerfd epoll", "epoll-timerfd epoll ppoll" };
	int cfg, i, method, l1, d;
	long allocs0;

	env_init();
	sched_init();
	sched_on_quiescence = quiescent;
	sched_on_signal = on_signal;
	sched_max_points = mc_arg_int("maxpoints", 6000);
	hbudget = mc_arg_int("hacts", 1);
	method = mc_arg_int("method", 0);
	if (mc_arg_int("methods", 0))
		method = mc_choose(4, MC_CONFIG, "method");
	env_exclude_methods = excl[method];
	{
		/* cfgs=<list> restricts the interest configurations (default: all) */
		int cl[32], nc = 0;
		const char *a = mc_arg("cfgs", "");
		while (*a && nc < 32) {
			char *e;
			long v = strtol(a, &e, 10), w;
			if (e == a) break;
			w = v;
			if (*e == '-') w = strtol(e + 1, &e, 10);
			for (; v <= w && nc < 32; v++) cl[nc++] = v;
			a = e;
			if (*a == ',') a++;
		}
		if (nc)
			cfg = cl[mc_choose(nc, MC_CONFIG, "interests")];
		else
			cfg = mc_choose(NCFG, MC_CONFIG, "interests");
		if (cfg < 0 || cfg >= NCFG)
			mc_broken("bad cfg");
	}
	for (i = 0; i < CFG[cfg].n; i++) {
		I[i].present = 1;
		I[i].thr = CFG[cfg].thr[i];
		I[i].flags = CFG[cfg].fl[i];
		I[i].sig = (CFG[cfg].usr2mask >> i) & 1 ? SIGUSR2 : SIGUSR1;
		if (I[i].sig == SIGUSR2)
			have_usr2 = 1;
		I[i].reg = -1;          /* to be registered by its loop at start */
	}
	if (CFG[cfg].n == 4) {
		/* registration order = a permutation (tree shapes differ) */
		int p = mc_choose(24, MC_CONFIG, "reg-order"), pool[4] = { 0, 1, 2, 3 }, k, left = 4;
		for (k = 0; k < 4; k++) {
			int f = 1, j, idx;
			for (j = 2; j < left; j++) f *= j;
			idx = p / f; p %= f;
			reg_order[k] = pool[idx];
			for (j = idx; j < left - 1; j++) pool[j] = pool[j + 1];
			left--;
		}
	}
	/* optionally one interest starts unregistered so that a later register is a driver step */
	if (CFG[cfg].n > 1 && CFG[cfg].n < 4 && mc_choose(2, MC_CONFIG, "last-starts-unregistered"))
		I[CFG[cfg].n - 1].reg = 0;
	mc_obs("m%d cfg%d", method, cfg);
	allocs0 = env_lib_allocs_live;
	/* iv_init(3): the very first iv_init of the process must complete before other threads call it */
	iv_init();
	iv_deinit();
	tid_of[0] = 0;
	tid_of[1] = l1 = sched_spawn("L1", l1_thread, NULL);
	driver_tid = d = sched_spawn("D", driver, NULL);
	loop_body(0);
	sched_join(l1);
	sched_join(d);
	check_obligations("at exit");
	{
		struct sigaction sa;
		sigaction(SIGUSR1, NULL, &sa);
		if (sa.sa_handler != SIG_DFL)
			mc_fail("sig-disposition", "SIGUSR1 disposition not the default after all interests are gone");
		sigaction(SIGUSR2, NULL, &sa);
		if (sa.sa_handler != SIG_DFL)
			mc_fail("sig-disposition", "SIGUSR2 disposition not the default after all interests are gone");
	}
	if (env_lib_allocs_live != allocs0)
		mc_fail("leak-mem", "%ld library allocations live after both loops were deinitialised", env_lib_allocs_live - allocs0);
	if (env_lib_fds_open()) {
		char b[200];
		env_lib_fds_list(b, sizeof(b));
		mc_fail("leak-fd", "library descriptors left open: %s", b);
	}
	mc_done();
}

int main(int argc, char **argv)
{
	static const struct mc_harness h = { .name = "h_signal", .exec = exec_one, .timeout_s = 30 };
	return mc_main(argc, argv, &h);
}
