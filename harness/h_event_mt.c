/*
 * h_event_mt: iv_event across threads (property C08, and the C14 race runs).
 * Owner O (thread 0) runs iv_main with events E0,E1 (+E2 registered later), a
 * descriptor and a timer.  Posters are plain threads running small post
 * programs; each ends by posting its own "done" event, on which the owner
 * joins it (the happens-before proof that no post is in flight before any
 * event is unregistered).  All interleavings at lock / kick / wait points
 * within the preemption bound are enumerated.
 */
#ifndef _GNU_SOURCE
#define _GNU_SOURCE
#endif
#include <errno.h>
#include <stdio.h>
#include <stdlib.h>
#include <string.h>
#include <unistd.h>
#include <sys/socket.h>
#include <iv.h>
#include <iv_event.h>
#include "mc.h"
#include "env.h"
#include "mcsched.h"

#define NE 3            /* user events E0..E2 */
#define NP 3            /* posters */

struct ev {
	struct iv_event *p;
	int reg;
	long posts_started, posts_returned, handled;
	long last_post_seq, last_handler_seq;
	const char *name;
};
static struct ev E[NE], D[NP];      /* D[p]: poster p's "done" event */
static long seq;
static int owner_fd[2], owner_fd_reg;
static int owner_fd2[2] = { -1, -1 }, ofd_gen;
static int app_pipe[2] = { -1, -1 }, prelude;
static int idle_fd[2];
static struct iv_fd idle_ofd;      /* a second, never-ready descriptor: the poll batch has room for two entries */
static struct iv_fd *ofd;
static struct iv_timer otimer;
static int posters_alive, nposters;
static int poster_id[NP];
static const char *prog[NP];
static long allocs0;
static int handler_budget;

static void ev_handler(void *_e);
static void done_handler(void *_p);

static struct iv_event *mk_event(void (*h)(void *), void *cookie)
{
	struct iv_event *p = malloc(sizeof(*p));
	memset(p, 0xbe, sizeof(*p));
	IV_EVENT_INIT(p);
	p->cookie = cookie;
	p->handler = h;
	if (iv_event_register(p) != 0)
		mc_fail("try-failed", "iv_event_register failed");
	return p;
}

static void rm_event(struct ev *e)
{
	iv_event_unregister(e->p);
	e->reg = 0;
	memset(e->p, 0xbe, sizeof(*e->p));
	free(e->p);
	e->p = NULL;
}

static void do_post(struct ev *e, const char *who)
{
	e->posts_started++;
	e->last_post_seq = ++seq;
	mc_obs("%s:post-%s", who, e->name);
	iv_event_post(e->p);
	e->posts_returned++;
}

static void check_event(struct ev *e, const char *when)
{
	if (e->posts_started && e->last_handler_seq < e->last_post_seq)
		mc_fail("event-lost", "%s: a post to %s (post #%ld) was never followed by its handler (handler ran %ld times)",
			when, e->name, e->posts_started, e->handled);
}

static void drop_owner_fd(void)
{
	iv_fd_unregister(ofd);
	owner_fd_reg = 0;
	/* the caller may free it at once */
	memset(ofd, 0xbe, sizeof(*ofd));
	free(ofd);
	ofd = NULL;
}

static void maybe_finish(void)
{
	int i;
	if (posters_alive)
		return;
	/* all posters joined: nothing can be in flight any more */
	for (i = 0; i < NE; i++)
		if (E[i].reg && E[i].posts_started && E[i].last_handler_seq < E[i].last_post_seq)
			return;         /* its handler is still to come (posted, kick pending) */
	for (i = 0; i < NE; i++)
		if (E[i].reg) {
			mc_obs("unreg-%s", E[i].name);
			rm_event(&E[i]);
		}
	if (owner_fd_reg)
		drop_owner_fd();
	if (iv_fd_registered(&idle_ofd))
		iv_fd_unregister(&idle_ofd);
	if (iv_timer_registered(&otimer))
		iv_timer_unregister(&otimer);
}

static void ofd_in(void *ck);
static void idle_in(void *dummy);

static void ev_handler(void *_e)
{
	struct ev *e = _e;
	int c;
	if (sched_self() != 0)
		mc_fail("event-thread", "handler of %s ran in thread %d, not in the owner", e->name, sched_self());
	if (!e->reg)
		mc_fail("stale-callback", "handler of %s ran although it is unregistered", e->name);
	e->handled++;
	e->last_handler_seq = ++seq;
	mc_mark_callback();
	mc_obs("O:h-%s", e->name);
	if (e->handled > e->posts_started)
		mc_fail("event-over", "handler of %s invoked %ld times for %ld posts", e->name, e->handled, e->posts_started);
	if (handler_budget > 0) {
		c = mc_choose(8, MC_ACTION, "handler-act");
		if (c)
			handler_budget--;
		switch (c) {
		case 1: do_post(&E[e == &E[0] ? 1 : 0], "O"); break;           /* post the other one locally */
		case 2: do_post(e, "O"); break;                                /* post self */
		case 3:
			if (!E[2].reg) {
				mc_obs("O:reg-E2");
				E[2].p = mk_event(ev_handler, &E[2]);
				E[2].reg = 1;
				do_post(&E[2], "O");
			}
			break;
		case 5:
			/* unregister (and free) the owner's descriptor from an event handler: its readiness may already
			 * have been collected in the same poll round */
			if (owner_fd_reg) {
				mc_obs("O:unreg-fd");
				drop_owner_fd();
			}
			break;
		case 7:
			/* unregister the owner's descriptor but keep the object around (an application that registers it again later):
			 * a stale dispatch reaches the handler instead of freed memory */
			if (owner_fd_reg) {
				mc_obs("O:unreg-fd-keep");
				iv_fd_unregister(ofd);
				owner_fd_reg = 0;
			}
			break;
		case 6:
			/* recycle the owner's descriptor object: unregister it and register the very same struct for a fresh
			 * descriptor that nobody ever writes to; readiness of the old one may sit in the current batch */
			if (owner_fd_reg && owner_fd2[0] < 0) {
				mc_obs("O:recycle-fd");
				iv_fd_unregister(ofd);
				if (socketpair(AF_UNIX, SOCK_STREAM, 0, owner_fd2) < 0)
					mc_broken("socketpair");
				memset(ofd, 0xbe, sizeof(*ofd));
				IV_FD_INIT(ofd);
				ofd->fd = owner_fd2[0];
				ofd->cookie = (void *)(long)++ofd_gen;
				ofd->handler_in = ofd_in;
				iv_fd_register(ofd);
			}
			break;
		case 4:
			/* E2 is only ever posted by the owner itself, so no post can be in flight */
			if (E[2].reg) {
				mc_obs("O:unreg-E2");
				rm_event(&E[2]);
				E[2].last_handler_seq = E[2].last_post_seq;
			}
			break;
		}
	}
	maybe_finish();
}

static void done_handler(void *_p)
{
	int p = (int)(long)_p;
	if (sched_self() != 0)
		mc_fail("event-thread", "done handler ran in thread %d", sched_self());
	D[p].handled++;
	D[p].last_handler_seq = ++seq;
	mc_obs("O:done-P%d", p);
	if (D[p].handled > D[p].posts_started)
		mc_fail("event-over", "done handler of poster %d invoked more often than posted", p);
	sched_join(poster_id[p]);
	rm_event(&D[p]);
	posters_alive--;
	maybe_finish();
}

static void poster(void *_p)
{
	int p = (int)(long)_p;
	const char *s;
	char who[8];
	snprintf(who, sizeof(who), "P%d", p);
	for (s = prog[p]; *s; s++) {
		if (*s >= '0' && *s <= '2') {
			if (E[*s - '0'].reg)
				do_post(&E[*s - '0'], who);
		} else if (*s == 'f') {
			mc_obs("%s:feed", who);
			sched_yield_point("feed");
			if (write(owner_fd[1], "x", 1) != 1) {}
		}
	}
	do_post(&D[p], who);
}

static void ofd_in(void *ck)
{
	char b[16];
	if ((long)ck != ofd_gen)
		mc_fail("stale-callback", "descriptor handler invoked with the cookie of registration %ld, current is %d", (long)ck, ofd_gen);
	if (!owner_fd_reg)
		mc_fail("stale-callback", "descriptor handler invoked although the descriptor is unregistered");
	mc_obs("O:fd-in");
	if (ofd_gen > 0)
		mc_fail("fd-spurious", "handler of the recycled descriptor object invoked although nothing was ever written to its new descriptor");
	while (read(owner_fd[0], b, sizeof(b)) > 0)
		;
}

static void idle_in(void *dummy)
{
	(void)dummy;
	mc_fail("fd-spurious", "handler of a descriptor that never became readable was invoked");
}

static void otimer_cb(void *dummy)
{
	int c;
	(void)dummy;
	mc_obs("O:timer");
	/* runs before the loop's task phase: owner-side activity between a local post and its delivery */
	c = mc_choose(3, MC_ACTION, "timer-act");
	if (c == 1 && E[2].reg) {
		mc_obs("O:unreg-E2");
		rm_event(&E[2]);
		E[2].last_handler_seq = E[2].last_post_seq;
	} else if (c == 2) {
		do_post(&E[0], "O");
	}
	maybe_finish();
}

static int quiescent(void)
{
	int i;
	for (i = 0; i < NE; i++)
		check_event(&E[i], "owner blocked for good");
	for (i = 0; i < NP; i++)
		check_event(&D[i], "owner blocked for good");
	mc_fail("stuck", "owner blocked with no wake-up source although posters are still to be joined (%d alive)", posters_alive);
}

static const char *P1PROGS[] = { "0", "01", "00", "0f", "f0", "10" };
static const char *P2PROGS[] = { "", "0", "1", "f" };
static const char *tname[] = { "epoll-timerfd", "epoll", "ppoll-eventfd", "ppoll-pipe", "poll-eventfd" };

static int parse_list(const char *s, int *out, int max)
{
	int n = 0;
	while (*s && n < max) {
		char *e;
		long a = strtol(s, &e, 10), b;
		if (e == s) break;
		b = a;
		if (*e == '-') b = strtol(e + 1, &e, 10);
		for (; a <= b && n < max; a++) out[n++] = a;
		s = e;
		if (*s == ',') s++;
	}
	return n;
}

static void exec_one(void)
{
	int tl[8], nt, p1l[8], n1, p2l[8], n2, tr, i, with_fd;

	env_init();
	sched_init();
	sched_on_quiescence = quiescent;
	sched_fault_eintr = mc_arg_int("eintr", 0);
	sched_max_points = mc_arg_int("maxpoints", 3000);
	nt = parse_list(mc_arg("transports", "0-3"), tl, 8);
	n1 = parse_list(mc_arg("p1", "0-5"), p1l, 8);
	n2 = parse_list(mc_arg("p2", "0-3"), p2l, 8);
	handler_budget = mc_arg_int("hacts", 1);
	tr = tl[mc_choose(nt, MC_CONFIG, "transport")];
	prog[0] = P1PROGS[p1l[mc_choose(n1, MC_CONFIG, "p1")]];
	prog[1] = P2PROGS[p2l[mc_choose(n2, MC_CONFIG, "p2")]];
	nposters = prog[1][0] ? 2 : 1;
	with_fd = strchr(prog[0], 'f') || strchr(prog[1], 'f') || mc_arg_int("fd", 0);
	switch (tr) {
	case 0: env_exclude_methods = ""; break;
	case 1: env_exclude_methods = "epoll-timerfd"; break;
	case 2: env_exclude_methods = "epoll-timerfd epoll"; break;
	case 3: env_exclude_methods = "epoll-timerfd epoll"; env_sc_errno[ENV_SC_EVENTFD2] = ENOSYS; env_sc_errno[ENV_SC_EVENTFD] = ENOSYS; break;
	default: env_exclude_methods = "epoll-timerfd epoll ppoll"; break;
	}
	mc_obs("%s P1=%s P2=%s", tname[tr], prog[0], prog[1]);

	allocs0 = env_lib_allocs_live;
	iv_init();
	E[0].name = "E0"; E[1].name = "E1"; E[2].name = "E2";
	D[0].name = "D0"; D[1].name = "D1"; D[2].name = "D2";
	prelude = mc_choose(3, MC_CONFIG, "prelude");
	if (prelude == 2) {
		/* an earlier life of the process: its only event was registered and unregistered again (the process-wide count of
		 * events went 1 -> 0), and the application opened a descriptor of its own afterwards, which gets the lowest free number */
		struct iv_event *x = malloc(sizeof(*x));
		memset(x, 0xbe, sizeof(*x));
		IV_EVENT_INIT(x);
		x->cookie = NULL;
		x->handler = ev_handler;
		if (iv_event_register(x) != 0)
			mc_fail("try-failed", "iv_event_register failed");
		iv_event_unregister(x);
		free(x);
		if (pipe(app_pipe) < 0)
			mc_broken("pipe");
		mc_obs("O:event-cycle-then-app-pipe");
	}
	if (prelude == 1) {
		/* the thread's very first iv_event_register fails on a transient EMFILE and is simply retried */
		struct iv_event *x = malloc(sizeof(*x));
		int ret;
		memset(x, 0xbe, sizeof(*x));
		IV_EVENT_INIT(x);
		x->cookie = NULL;
		x->handler = ev_handler;
		env_fail_next_evfd_errno = EMFILE;
		ret = iv_event_register(x);
		env_fail_next_evfd_errno = 0;
		mc_obs("O:first-register=%d", ret);
		if (ret == 0)
			iv_event_unregister(x);
		free(x);
	}
	for (i = 0; i < 2; i++) {
		E[i].p = mk_event(ev_handler, &E[i]);
		E[i].reg = 1;
	}
	if (with_fd) {
		if (socketpair(AF_UNIX, SOCK_STREAM, 0, owner_fd) < 0)
			mc_broken("socketpair");
		ofd = malloc(sizeof(*ofd));
		memset(ofd, 0xbe, sizeof(*ofd));
		IV_FD_INIT(ofd);
		ofd->fd = owner_fd[0];
		ofd->cookie = NULL;
		ofd->handler_in = ofd_in;
		iv_fd_register(ofd);
		owner_fd_reg = 1;
		if (socketpair(AF_UNIX, SOCK_STREAM, 0, idle_fd) < 0)
			mc_broken("socketpair");
		IV_FD_INIT(&idle_ofd);
		idle_ofd.fd = idle_fd[0];
		idle_ofd.cookie = NULL;
		idle_ofd.handler_in = idle_in;
		iv_fd_register(&idle_ofd);
	}
	IV_TIMER_INIT(&otimer);
	if (mc_choose(2, MC_CONFIG, "prepost")) {
		/* the owner has posted to its own events before the loop starts, and a due timer runs first */
		E[2].p = mk_event(ev_handler, &E[2]);
		E[2].reg = 1;
		do_post(&E[2], "O");
		do_post(&E[1], "O");
		otimer.expires = env_now;
		otimer.handler = otimer_cb;
		iv_timer_register(&otimer);
	} else if (mc_arg_int("timer", 0)) {
		otimer.expires = env_now;
		otimer.expires.tv_nsec += 10000000;
		otimer.handler = otimer_cb;
		iv_timer_register(&otimer);
	}
	for (i = 0; i < nposters; i++) {
		D[i].p = mk_event(done_handler, (void *)(long)i);
		D[i].reg = 1;
	}
	posters_alive = nposters;
	for (i = 0; i < nposters; i++)
		poster_id[i] = sched_spawn(i ? "P1" : "P0", poster, (void *)(long)i);
	mc_obs("O:main");
	iv_main();
	mc_obs("O:ret");
	if (posters_alive)
		mc_fail("main-return-early", "iv_main returned with posters outstanding");
	for (i = 0; i < NE; i++)
		check_event(&E[i], "at exit");
	iv_deinit();
	if (ofd) {
		free(ofd);
		ofd = NULL;
	}
	if (app_pipe[0] >= 0) {
		close(app_pipe[0]);
		close(app_pipe[1]);
	}
	if (with_fd) {
		close(owner_fd[0]);
		close(owner_fd[1]);
		close(idle_fd[0]);
		close(idle_fd[1]);
		if (owner_fd2[0] >= 0) {
			close(owner_fd2[0]);
			close(owner_fd2[1]);
		}
	}
	if (env_lib_allocs_live != allocs0)
		mc_fail("leak-mem", "%ld library allocations live after iv_deinit", env_lib_allocs_live - allocs0);
	if (env_lib_fds_open()) {
		char b[200];
		env_lib_fds_list(b, sizeof(b));
		mc_fail("leak-fd", "library descriptors left open after iv_deinit: %s", b);
	}
	mc_done();
}

int main(int argc, char **argv)
{
	static const struct mc_harness h = { .name = "h_event_mt", .exec = exec_one, .timeout_s = 30 };
	return mc_main(argc, argv, &h);
}
