/*
 * h_loops_mt: concurrent initialisation, use and tear-down of independent
 * loops in different threads (C14, C18).  Two threads each run `cycles`
 * rounds of iv_init / register an iv_event, a raw event, a signal interest /
 * run the loop until a timer unregisters them / iv_deinit, with all
 * interleavings within the preemption bound.  Process-wide state touched:
 * poll method selection, the shared epoll wake-up descriptor and its
 * reference count, signal tables, feature-detection flags.
 */
#ifndef _GNU_SOURCE
#define _GNU_SOURCE
#endif
#include <errno.h>
#include <signal.h>
#include <stdio.h>
#include <stdlib.h>
#include <string.h>
#include <unistd.h>
#include <iv.h>
#include <iv_event.h>
#include <iv_event_raw.h>
#include <iv_signal.h>
#include <iv_inotify.h>
#include <sys/stat.h>
#include <fcntl.h>
#include "mc.h"
#include "env.h"
#include "mcsched.h"

struct loopctx {
	int id;
	struct iv_event ev;
	struct iv_event_raw raw;
	struct iv_signal sig;
	struct iv_timer tm;
	struct iv_inotify ino;
	struct iv_inotify_watch watch;
	char dir[200];
	int ino_events;
	int handled;
};
static struct loopctx L[2];
static int cycles, with_sig, with_ino, sigflags[2], emfile1;

static void ev_cb(void *c) { ((struct loopctx *)c)->handled++; }
static int raw_handled[2];
static void raw_cb(void *c) { raw_handled[((struct loopctx *)c)->id]++; }
static void sig_cb(void *c) { (void)c; }

static void ino_cb(void *_c, struct inotify_event *ev)
{
	struct loopctx *c = _c;
	if (ev->wd != c->watch.wd)
		mc_fail("inotify-route", "thread %d: watch handler got an event for wd %d, its own wd is %d", c->id, ev->wd, c->watch.wd);
	if (ev->len && strncmp(ev->name, c->id ? "file1" : "file0", 5))
		mc_fail("inotify-route", "thread %d: watch handler got an event named '%s' that belongs to the other thread's directory", c->id, ev->name);
	c->ino_events++;
}

static void tm_cb(void *_c)
{
	struct loopctx *c = _c;
	mc_obs("T%d:teardown", c->id);
	mc_mark_callback();
	if (raw_handled[c->id] != 1)
		mc_fail("raw-lost", "thread %d: its raw event was posted once before the loop started, handler ran %d times", c->id, raw_handled[c->id]);
	iv_event_unregister(&c->ev);
	iv_event_raw_unregister(&c->raw);
	if (with_sig)
		iv_signal_unregister(&c->sig);
	if (with_ino) {
		if (c->ino_events < 1)
			mc_fail("inotify-lost", "thread %d: no inotify event delivered for the file created in its watched directory", c->id);
		iv_inotify_watch_unregister(&c->watch);
		iv_inotify_unregister(&c->ino);
	}
}

static void body(void *_c)
{
	struct loopctx *c = _c;
	int k;
	for (k = 0; k < cycles; k++) {
		mc_obs("T%d:cycle%d", c->id, k);
		iv_init();
		IV_EVENT_INIT(&c->ev);
		c->ev.cookie = c;
		c->ev.handler = ev_cb;
		iv_event_register(&c->ev);
		IV_EVENT_RAW_INIT(&c->raw);
		c->raw.cookie = c;
		c->raw.handler = raw_cb;
		if (emfile1 && c->id == 1 && k == 0) {
			/* a transient descriptor shortage in this thread only: the registration fails cleanly or succeeds on another
			 * transport; either way the other thread's objects must not notice */
			env_fail_next_evfd_thread = sched_self();
			env_fail_next_evfd_errno = EMFILE;
			env_fail_evfd_sticky = 1;
			if (iv_event_raw_register(&c->raw) != 0) {
				mc_obs("T1:raw-register-EMFILE");
				env_fail_next_evfd_errno = 0;
				if (iv_event_raw_register(&c->raw) != 0)
					mc_fail("try-failed", "iv_event_raw_register failed without any fault");
			}
			env_fail_next_evfd_errno = 0;
		} else if (iv_event_raw_register(&c->raw) != 0) {
			mc_fail("try-failed", "iv_event_raw_register failed without any fault");
		}
		if (with_sig) {
			IV_SIGNAL_INIT(&c->sig);
			c->sig.signum = SIGUSR1;
			c->sig.flags = sigflags[c->id];
			c->sig.cookie = c;
			c->sig.handler = sig_cb;
			iv_signal_register(&c->sig);
		}
		if (with_ino) {
			char f[260];
			int fd;
			c->ino_events = 0;
			IV_INOTIFY_INIT(&c->ino);
			if (iv_inotify_register(&c->ino) != 0)
				mc_fail("try-failed", "iv_inotify_register failed");
			IV_INOTIFY_WATCH_INIT(&c->watch);
			c->watch.inotify = &c->ino;
			c->watch.pathname = c->dir;
			c->watch.mask = IN_CREATE | IN_MODIFY | IN_CLOSE_WRITE;
			c->watch.cookie = c;
			c->watch.handler = ino_cb;
			if (iv_inotify_watch_register(&c->watch) != 0)
				mc_fail("try-failed", "iv_inotify_watch_register failed");
			snprintf(f, sizeof(f), "%s/file%d", c->dir, c->id);
			fd = open(f, O_WRONLY | O_CREAT | O_TRUNC, 0644);
			if (fd >= 0) {
				if (write(fd, "x", 1) != 1) {}
				close(fd);
			}
		}
		iv_event_post(&c->ev);
		/* a kernel-reported readiness in every loop: the poll result buffers of both threads are written */
		raw_handled[c->id] = 0;
		iv_event_raw_post(&c->raw);
		IV_TIMER_INIT(&c->tm);
		c->tm.cookie = c;
		c->tm.handler = tm_cb;
		c->tm.expires = env_now;
		c->tm.expires.tv_nsec += 1000000;
		iv_timer_register(&c->tm);
		iv_main();
		iv_deinit();
	}
}

static int quiescent(void)
{
	mc_fail("stuck", "both loop threads blocked for good");
}

static void exec_one(void)
{
	static const char *excl[4] = { "", "epoll-timerfd", "epoll-timerfd epoll", "epoll-timerfd epoll ppoll" };
	long allocs0;
	int t1, method;
	env_init();
	sched_init();
	sched_on_quiescence = quiescent;
	sched_max_points = mc_arg_int("maxpoints", 6000);
	cycles = mc_arg_int("cycles", 2);
	with_sig = mc_arg_int("sig", 1);
	with_ino = mc_arg_int("ino", 0);
	if (with_ino) {
		int k;
		for (k = 0; k < 2; k++) {
			snprintf(L[k].dir, sizeof(L[k].dir), "%s/lmt%d", mc_scratch(), k);
			mkdir(L[k].dir, 0755);
		}
	}
	method = mc_choose(4, MC_CONFIG, "method");
	emfile1 = mc_arg_int("emfile1", 0) ? mc_choose(2, MC_CONFIG, "T1-raw-register-hits-EMFILE") : 0;
	{
		static const int fl[3] = { 0, IV_SIGNAL_FLAG_THIS_THREAD, IV_SIGNAL_FLAG_EXCLUSIVE };
		sigflags[0] = fl[mc_choose(3, MC_CONFIG, "sigflags0")];
		sigflags[1] = fl[mc_choose(3, MC_CONFIG, "sigflags1")];
	}
	env_exclude_methods = excl[method];
	mc_obs("m%d", method);
	allocs0 = env_lib_allocs_live;
	/* iv_init(3): the very first iv_init of the process must complete before other threads call it */
	iv_init();
	iv_deinit();
	L[0].id = 0; L[1].id = 1;
	t1 = sched_spawn("T1", body, &L[1]);
	body(&L[0]);
	sched_join(t1);
	if (L[0].handled != cycles || L[1].handled != cycles)
		mc_fail("event-lost", "self-posted events handled %d/%d times in %d cycles", L[0].handled, L[1].handled, cycles);
	if (env_lib_allocs_live != allocs0)
		mc_fail("leak-mem", "%ld library allocations live after both threads deinitialised their loops", env_lib_allocs_live - allocs0);
	if (env_lib_fds_open()) {
		char b[200];
		env_lib_fds_list(b, sizeof(b));
		mc_fail("leak-fd", "library descriptors left open: %s", b);
	}
	mc_done();
}

int main(int argc, char **argv)
{
	static const struct mc_harness h = { .name = "h_loops_mt", .exec = exec_one, .timeout_s = 30 };
	return mc_main(argc, argv, &h);
}
