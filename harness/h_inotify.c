/*
 * h_inotify: iv_inotify (property C20; inotify part of C01/C18).
 * Real inotify on a scratch directory.  A burst of filesystem operations is
 * performed before the loop polls, so that all records arrive in one read();
 * the read wrapper keeps a copy of the raw kernel buffer, which the harness
 * parses independently to derive the expected delivery list.  At every
 * delivery the handler may unregister this / another watch / the instance
 * (and frees the memory at once) or register a new watch.
 */
#ifndef _GNU_SOURCE
#define _GNU_SOURCE
#endif
#include <errno.h>
#include <fcntl.h>
#include <stdio.h>
#include <stdlib.h>
#include <string.h>
#include <unistd.h>
#include <sys/stat.h>
#include <sys/inotify.h>
#include <iv.h>
#include <iv_inotify.h>
#include "mc.h"
#include "env.h"

#define NI 2
#define NW 5

struct inst { struct iv_inotify *p; int reg; int gen; };
struct watch {
	struct iv_inotify_watch *p;
	int inst;
	int reg;            /* registered in the model (not dropped, not unregistered) */
	int wd;
	int oneshot;
	int gen;
	int is_dir;         /* watches a directory (dir1, dir2, scratch) */
	int gone_ok;        /* the watched object was deleted: the kernel removes the watch (IN_IGNORED) */
	char path[300];
};
static struct inst I[NI];
static struct watch W[NW];
static char dir1[256], dir2[256], scratch[200];
static long allocs0;

/* raw records of the read being dispatched */
struct rec { int inst; int wd; uint32_t mask; uint32_t cookie; char name[260]; };
static struct rec recs[256];
static int nrecs, rec_next;
static int in_main, cb_depth;

struct wcookie { int w, gen; };
static struct wcookie wck[64];
static int nwck;

static void watch_cb(void *ck, struct inotify_event *ev);

static void free_watch(struct watch *w)
{
	if (w->p) {
		memset(w->p, 0xbe, sizeof(*w->p));
		free(w->p);
		w->p = NULL;
	}
}

static int reg_watch(int wi, int inst, const char *path, uint32_t mask)
{
	struct watch *w = &W[wi];
	w->p = malloc(sizeof(*w->p));
	memset(w->p, 0xbe, sizeof(*w->p));
	IV_INOTIFY_WATCH_INIT(w->p);
	snprintf(w->path, sizeof(w->path), "%s", path);
	w->p->inotify = I[inst].p;
	w->p->pathname = w->path;
	w->p->mask = mask;
	w->gen++;
	wck[nwck].w = wi; wck[nwck].gen = w->gen;
	w->p->cookie = &wck[nwck++];
	w->p->handler = watch_cb;
	if (iv_inotify_watch_register(w->p) != 0) {
		free_watch(w);
		return -1;
	}
	w->inst = inst;
	w->reg = 1;
	w->wd = w->p->wd;
	w->oneshot = !!(mask & IN_ONESHOT);
	w->gone_ok = 0;
	{
		struct stat sb;
		w->is_dir = stat(path, &sb) == 0 && S_ISDIR(sb.st_mode);
	}
	return 0;
}

static void reg_inst(int i)
{
	I[i].p = malloc(sizeof(*I[i].p));
	memset(I[i].p, 0xbe, sizeof(*I[i].p));
	IV_INOTIFY_INIT(I[i].p);
	if (iv_inotify_register(I[i].p) != 0)
		mc_fail("try-failed", "iv_inotify_register failed");
	I[i].reg = 1;
	I[i].gen++;
}

static void unreg_watch(int wi)
{
	struct watch *w = &W[wi];
	iv_inotify_watch_unregister(w->p);
	w->reg = 0;
	free_watch(w);
}

static void unreg_inst(int i)
{
	int k;
	iv_inotify_unregister(I[i].p);
	I[i].reg = 0;
	memset(I[i].p, 0xbe, sizeof(*I[i].p));
	free(I[i].p);
	I[i].p = NULL;
	/* the kernel drops all its watches with the descriptor; their memory is the caller's again */
	for (k = 0; k < NW; k++)
		if (W[k].inst == i && W[k].p) {
			W[k].reg = 0;
			free_watch(&W[k]);
		}
}

static int in_tree(struct iv_inotify *inst, struct iv_inotify_watch *w)
{
	struct iv_avl_node *an;
	iv_avl_tree_for_each (an, &inst->watches)
		if (an == &w->an)
			return 1;
	return 0;
}

/* which record should the next delivery be?  skip records whose watch is not registered (any more) */
static struct rec *next_expected(void)
{
	while (rec_next < nrecs) {
		struct rec *r = &recs[rec_next];
		int k, found = 0;
		if (I[r->inst].reg)
			for (k = 0; k < NW; k++)
				if (W[k].reg && W[k].inst == r->inst && W[k].wd == r->wd)
					found = 1;
		if (found)
			return r;
		rec_next++;
	}
	return NULL;
}

static void watch_cb(void *_ck, struct inotify_event *ev)
{
	struct wcookie *ck = _ck;
	struct watch *w;
	struct rec *r;
	int menu[24], arg[24], n = 0, c, k, my_inst;

	if (ck < wck || ck >= wck + nwck)
		mc_fail("cookie", "watch handler called with an unknown cookie");
	w = &W[ck->w];
	mc_mark_callback();
	if (cb_depth++)
		mc_fail("nested-callback", "watch handler nested");
	mc_obs("cb-w%d wd=%d mask=%x %s", ck->w, ev->wd, ev->mask, ev->len ? ev->name : "");
	if (!w->reg || w->gen != ck->gen)
		mc_fail("stale-callback", "handler of watch %d (generation %d) invoked although the watch was %s", ck->w, ck->gen,
			w->gen != ck->gen ? "re-registered" : "unregistered or dropped");
	r = next_expected();
	if (!r)
		mc_fail("inotify-extra", "handler of watch %d invoked for wd %d mask %x but no kernel record is outstanding", ck->w, ev->wd, ev->mask);
	if (r->wd != ev->wd || r->mask != ev->mask || r->cookie != ev->cookie || strcmp(r->name, ev->len ? ev->name : "") ||
	    r->inst != w->inst || w->wd != ev->wd)
		mc_fail("inotify-route", "watch %d (wd %d) got event wd=%d mask=%x name='%s' but the next kernel record for a live watch is wd=%d mask=%x name='%s'",
			ck->w, w->wd, ev->wd, ev->mask, ev->len ? ev->name : "", r->wd, r->mask, r->name);
	rec_next++;
	my_inst = w->inst;
	if ((ev->mask & IN_IGNORED) && !w->oneshot && !w->gone_ok)
		mc_fail("inotify-ignored", "watch %d on %s was removed from the kernel (IN_IGNORED) although its object still exists and nobody unregistered it",
			ck->w, w->path);
	if ((ev->mask & IN_IGNORED) || w->oneshot) {
		/* dropped from the instance before its handler runs; the memory is ours again */
		if (in_tree(I[my_inst].p, w->p))
			mc_fail("inotify-drop", "watch %d (%s) is still in the instance's watch set when its handler runs",
				ck->w, (ev->mask & IN_IGNORED) ? "removed by the kernel" : "one-shot");
		w->reg = 0;
		free_watch(w);
	}
	/* handler program */
	menu[n] = 0; arg[n++] = 0;
	if (w->reg) { menu[n] = 1; arg[n++] = ck->w; }
	for (k = 0; k < NW; k++)
		if (k != ck->w && W[k].reg && I[W[k].inst].reg) { menu[n] = 1; arg[n++] = k; }
	for (k = 0; k < NI; k++)
		if (I[k].reg) { menu[n] = 2; arg[n++] = k; }
	if (!W[NW - 1].reg && !W[NW - 1].p && I[my_inst].reg) { menu[n] = 3; arg[n++] = my_inst; }
	for (k = 0; k < NI; k++)
		if (I[k].reg && I[k].gen < 3) { menu[n] = 4; arg[n++] = k; }
	for (k = 0; k < NW; k++)
		if (W[k].reg && W[k].inst == my_inst && I[my_inst].reg && W[k].is_dir && !W[k].oneshot) { menu[n] = 5; arg[n++] = k; break; }
	c = mc_choose(n, MC_ACTION, "cb-watch");
	switch (menu[c]) {
	case 1: mc_obs("unreg-w%d", arg[c]); unreg_watch(arg[c]); break;
	case 2: mc_obs("unreg-i%d", arg[c]); unreg_inst(arg[c]); break;
	case 3: mc_obs("reg-w%d", NW - 1); reg_watch(NW - 1, arg[c], dir2, IN_CREATE | IN_DELETE); break;
	case 5: {
		/* a second watch for an object this instance watches already (other spelling of the path): refused, and the
		 * existing watch must not suffer */
		struct iv_inotify_watch *x = malloc(sizeof(*x));
		static char dup[420];
		int ret;
		memset(x, 0xbe, sizeof(*x));
		IV_INOTIFY_WATCH_INIT(x);
		snprintf(dup, sizeof(dup), "%s/.", W[arg[c]].path);
		x->inotify = I[my_inst].p;
		x->pathname = dup;
		x->mask = W[arg[c]].p->mask;
		x->cookie = NULL;
		x->handler = watch_cb;
		ret = iv_inotify_watch_register(x);
		mc_obs("dup-watch-of-w%d=%d", arg[c], ret);
		if (ret == 0)
			mc_fail("try-should-fail", "a second watch with the watch descriptor of watch %d was accepted", arg[c]);
		memset(x, 0xbe, sizeof(*x));
		free(x);
		break;
	}
	case 4: {
		/* unregister an instance and register the very same struct again (objects may be re-registered after
		 * unregistration; nothing says IV_INOTIFY_INIT has to be repeated) */
		int i2 = arg[c], q;
		mc_obs("cycle-i%d", i2);
		iv_inotify_unregister(I[i2].p);
		for (q = 0; q < NW; q++)
			if (W[q].inst == i2 && W[q].p) {
				W[q].reg = 0;
				free_watch(&W[q]);
			}
		if (iv_inotify_register(I[i2].p) != 0)
			mc_fail("try-failed", "iv_inotify_register failed");
		I[i2].gen++;
		break;
	}
	}
	cb_depth--;
}

/* keep a copy of what the kernel returned */
static int overflow_left;

static int rd_override(int fd, void *buf, size_t n, ssize_t *ret)
{
	int i, inst = -1;
	ssize_t r;
	char *p, *end;
	if (env_fd_kind(fd) != ENV_FD_INOTIFY)
		return 0;
	for (i = 0; i < NI; i++)
		if (I[i].reg && I[i].p->fd.fd == fd)
			inst = i;
	/* records of the previous read must all have been delivered or be skippable by now */
	if (next_expected() != NULL)
		mc_fail("inotify-lost", "record wd=%d mask=%x was read from the kernel but never delivered to its live watch", recs[rec_next].wd, recs[rec_next].mask);
	r = read(fd, buf, n);
	*ret = r;
	nrecs = rec_next = 0;
	if (r <= 0)
		return 1;
	p = buf; end = p + r;
	while (p < end && nrecs < 256) {
		struct inotify_event *e = (struct inotify_event *)p;
		recs[nrecs].inst = inst;
		recs[nrecs].wd = e->wd;
		recs[nrecs].mask = e->mask;
		recs[nrecs].cookie = e->cookie;
		snprintf(recs[nrecs].name, sizeof(recs[nrecs].name), "%s", e->len ? e->name : "");
		nrecs++;
		p += sizeof(*e) + e->len;
	}
	if (overflow_left > 0 && (size_t)r + sizeof(struct inotify_event) <= n && nrecs < 256 &&
	    mc_choose(2, MC_FAULT, "queue-overflow-marker")) {
		/* the kernel's event queue overflowed behind these records: its marker belongs to no watch */
		struct inotify_event *e = (struct inotify_event *)((char *)buf + r);
		overflow_left--;
		memset(e, 0, sizeof(*e));
		e->wd = -1;
		e->mask = IN_Q_OVERFLOW;
		recs[nrecs].inst = inst;
		recs[nrecs].wd = -1;
		recs[nrecs].mask = IN_Q_OVERFLOW;
		recs[nrecs].cookie = 0;
		recs[nrecs].name[0] = 0;
		nrecs++;
		*ret = r + sizeof(*e);
		mc_obs("overflow-marker");
	}
	mc_obs("read:%d-records", nrecs);
	return 1;
}

static void touch(const char *path)
{
	int fd = open(path, O_WRONLY | O_CREAT, 0644);
	if (fd >= 0) {
		if (write(fd, "x", 1) != 1) {}
		close(fd);
	}
}

static void object_gone(const char *path)
{
	int k;
	for (k = 0; k < NW; k++)
		if (W[k].p && !strcmp(W[k].path, path))
			W[k].gone_ok = 1;
}

static void fsop(int op)
{
	char a[700], b[700];
	switch (op) {
	case 0: break;
	case 1: snprintf(a, sizeof(a), "%s/new", dir1); touch(a); break;                    /* create + modify + close */
	case 2: snprintf(a, sizeof(a), "%s/f1", dir1); touch(a); break;                     /* write existing */
	case 3: snprintf(a, sizeof(a), "%s/f1", dir1); snprintf(b, sizeof(b), "%s/g1", dir1); rename(a, b); break;
	case 4: snprintf(a, sizeof(a), "%s/f1", dir1); snprintf(b, sizeof(b), "%s/f1", dir2); rename(a, b); break;
	case 5: snprintf(a, sizeof(a), "%s/f1", dir1); if (unlink(a) == 0) object_gone(a); break;
	case 6: if (rmdir(dir2) == 0) object_gone(dir2); break;
	case 7: {
		/* the longest file name there is: the record's name field is 256 bytes */
		char nm[256];
		memset(nm, 'L', 255);
		nm[255] = 0;
		snprintf(a, sizeof(a), "%s/%s", dir1, nm);
		touch(a);
		break;
	}
	}
	mc_obs("fs%d", op);
}

#include <dirent.h>
static void rmrf(const char *d)
{
	DIR *dir = opendir(d);
	struct dirent *de;
	char p[700];
	if (dir) {
		while ((de = readdir(dir)) != NULL) {
			if (!strcmp(de->d_name, ".") || !strcmp(de->d_name, ".."))
				continue;
			snprintf(p, sizeof(p), "%s/%s", d, de->d_name);
			if (unlink(p) < 0)
				rmrf(p);
		}
		closedir(dir);
	}
	rmdir(d);
}

static void finish(void)
{
	int k;
	if (next_expected() != NULL)
		mc_fail("inotify-lost", "record wd=%d mask=%x was read from the kernel but never delivered to its live watch", recs[rec_next].wd, recs[rec_next].mask);
	/* tear down from outside any handler */
	for (k = 0; k < NW; k++)
		if (W[k].reg && I[W[k].inst].reg)
			unreg_watch(k);
	for (k = 0; k < NI; k++)
		if (I[k].reg)
			unreg_inst(k);
}

static int burst2;

static struct iv_timer end_timer;

static void end_timer_cb(void *dummy)
{
	(void)dummy;
	mc_obs("quiet");
	finish();
}

static int would_block(struct env_wait *w)
{
	(void)w;
	if (cb_depth)
		mc_fail("nested-callback", "blocking inside a handler");
	if (burst2) {
		/* second round: more events in a later read */
		int op = burst2;
		burst2 = 0;
		fsop(op);
		return ENV_WB_REPOLL;
	}
	return ENV_WB_TIMEOUT;      /* virtual time runs to the end timer */
}

static void exec_one(void)
{
	int preset, op1, op2, k;
	char f1[400];
	const uint32_t DM = IN_CREATE | IN_DELETE | IN_MODIFY | IN_MOVED_FROM | IN_MOVED_TO | IN_DELETE_SELF | IN_CLOSE_WRITE;
	const uint32_t FM = IN_MODIFY | IN_DELETE_SELF | IN_ATTRIB | IN_MOVE_SELF | IN_CLOSE_WRITE;

	env_init();
	env_read_override = rd_override;
	env_wait_ops.would_block = would_block;
	snprintf(scratch, sizeof(scratch), "%s/ino", mc_scratch());
	rmrf(scratch);
	mkdir(scratch, 0755);
	snprintf(dir1, sizeof(dir1), "%s/d1", scratch);
	snprintf(dir2, sizeof(dir2), "%s/d2", scratch);
	mkdir(dir1, 0755);
	mkdir(dir2, 0755);
	snprintf(f1, sizeof(f1), "%s/f1", dir1);
	touch(f1);

	env_exclude_methods = mc_arg_int("method", 0) == 3 ? "epoll-timerfd epoll ppoll" : "";
	{
		int pl[8], np = 0;
		const char *a = mc_arg("presets", "");
		while (*a && np < 8) {
			char *e;
			long v = strtol(a, &e, 10);
			if (e == a) break;
			pl[np++] = v;
			a = e;
			if (*a == ',') a++;
		}
		preset = np ? pl[mc_choose(np, MC_CONFIG, "preset")] : mc_choose(5, MC_CONFIG, "preset");
	}
	op1 = mc_choose(8, MC_CONFIG, "op1");
	op2 = mc_choose(8, MC_CONFIG, "op2");
	overflow_left = mc_arg_int("overflow", 1);
	burst2 = mc_choose(3, MC_CONFIG, "round2") ? (op1 == 2 ? 1 : 2) : 0;
	allocs0 = env_lib_allocs_live;
	iv_init();
	reg_inst(0);
	switch (preset) {
	case 0: reg_watch(0, 0, dir1, DM); reg_watch(1, 0, f1, FM); break;
	case 1: reg_watch(0, 0, dir1, DM); reg_watch(1, 0, dir2, DM); reg_watch(2, 0, f1, FM); break;
	case 2: reg_watch(0, 0, dir1, DM | IN_ONESHOT); reg_watch(1, 0, f1, FM); reg_watch(2, 0, dir2, DM); break;
	/* two instances; no filesystem object is watched by both (the kernel orders notifications to
	 * different groups on one object by group address, which the harness cannot make deterministic) */
	case 3: reg_inst(1); reg_watch(0, 0, dir1, DM); reg_watch(1, 1, dir2, DM); reg_watch(2, 0, f1, FM | IN_ONESHOT); break;
	case 4: reg_watch(0, 0, f1, FM); reg_watch(1, 0, dir1, DM); reg_watch(2, 0, dir2, DM | IN_ONESHOT); reg_watch(3, 0, scratch, DM); break;
	}
	mc_obs("preset%d", preset);
	IV_TIMER_INIT(&end_timer);
	end_timer.expires = env_now;
	end_timer.expires.tv_sec += 100;
	end_timer.handler = end_timer_cb;
	iv_timer_register(&end_timer);
	fsop(op1);
	fsop(op2);
	in_main = 1;
	iv_main();
	in_main = 0;
	mc_obs("ret");
	for (k = 0; k < NI; k++)
		if (I[k].reg)
			mc_fail("main-return-early", "iv_main returned with an inotify instance registered");
	iv_deinit();
	rmrf(scratch);
	if (env_lib_allocs_live != allocs0)
		mc_fail("leak-mem", "%ld library allocations live after iv_deinit", env_lib_allocs_live - allocs0);
	if (env_lib_fds_open()) {
		char b[200];
		env_lib_fds_list(b, sizeof(b));
		mc_fail("leak-fd", "library descriptors left open after iv_deinit: %s", b);
	}
	mc_done();
}

int main(int argc, char **argv)
{
	static const struct mc_harness h = { .name = "h_inotify", .exec = exec_one, .timeout_s = 20 };
	return mc_main(argc, argv, &h);
}
