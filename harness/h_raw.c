/*
 * h_raw: iv_event_raw (property C09, C14 race runs).
 * Owner (thread 0) runs iv_main with raw event R0 and a "done" raw event RD.
 * Poster contexts: another thread, the owner itself (timer callback), a signal
 * handler running in the owner thread, a forked child.  Backings: eventfd2,
 * old eventfd, pipe (shrunk to 4096 bytes so that a burst overflows it).
 */
#ifndef _GNU_SOURCE
#define _GNU_SOURCE
#endif
#include <errno.h>
#include <fcntl.h>
#include <signal.h>
#include <stdio.h>
#include <stdlib.h>
#include <string.h>
#include <unistd.h>
#include <sys/wait.h>
#include <iv.h>
#include <iv_event_raw.h>
#include "mc.h"
#include "env.h"
#include "mcsched.h"

struct raw {
	struct iv_event_raw *p;
	int reg;
	long posts_started, handled, last_post_seq, last_handler_seq;
	const char *name;
};
static struct raw R0, RD;
static long seq;
static int poster_tid, poster_done;
static const char *prog;
static struct iv_timer otimer;
static int owner_posts;
static long allocs0;
static int backing;

static void r_handler(void *_r);

static struct iv_event_raw *mk_raw(struct raw *r)
{
	struct iv_event_raw *p = malloc(sizeof(*p));
	memset(p, 0xbe, sizeof(*p));
	IV_EVENT_RAW_INIT(p);
	p->cookie = r;
	p->handler = r_handler;
	if (iv_event_raw_register(p) != 0)
		mc_fail("try-failed", "iv_event_raw_register failed");
	r->p = p;
	r->reg = 1;
	return p;
}

static void rm_raw(struct raw *r)
{
	iv_event_raw_unregister(r->p);
	r->reg = 0;
	memset(r->p, 0xbe, sizeof(*r->p));
	free(r->p);
	r->p = NULL;
}

static void check_nonblock(struct raw *r, const char *who)
{
	int fl = fcntl(r->p->event_wfd, F_GETFL);
	if (fl < 0 || !(fl & O_NONBLOCK))
		mc_fail("raw-blocking", "%s: the descriptor written by iv_event_raw_post is in blocking mode (a post could block the poster)", who);
}

static void do_post(struct raw *r, const char *who, int count)
{
	int i;
	r->posts_started += count;
	r->last_post_seq = ++seq;
	mc_obs("%s:post-%s x%d", who, r->name, count);
	check_nonblock(r, who);
	if (count > 1)
		sched_atomic_begin();
	for (i = 0; i < count; i++)
		iv_event_raw_post(r->p);
	if (count > 1)
		sched_atomic_end();
}

static void maybe_finish(void)
{
	if (!poster_done)
		return;
	if (R0.reg && R0.posts_started && R0.last_handler_seq < R0.last_post_seq)
		return;
	if (R0.reg) {
		mc_obs("O:unreg-R0");
		rm_raw(&R0);
	}
	if (iv_timer_registered(&otimer))
		iv_timer_unregister(&otimer);
}

static void r_handler(void *_r)
{
	struct raw *r = _r;
	if (sched_self() != 0)
		mc_fail("event-thread", "handler of %s ran in thread %d, not in the registering thread", r->name, sched_self());
	if (!r->reg)
		mc_fail("stale-callback", "handler of %s ran although it is unregistered", r->name);
	if (!r->posts_started)
		mc_fail("raw-over", "handler of %s ran although nothing was ever posted", r->name);
	r->handled++;
	r->last_handler_seq = ++seq;
	mc_mark_callback();
	mc_obs("O:h-%s", r->name);
	if (r == &RD) {
		sched_join(poster_tid);
		poster_done = 1;
		rm_raw(&RD);
	} else if (owner_posts > 0 && mc_choose(2, MC_ACTION, "handler-post")) {
		owner_posts--;
		do_post(&R0, "O", 1);       /* post while the handler is running */
	}
	maybe_finish();
}

static void sig_handler(int sig)
{
	(void)sig;
	/* async-signal context in the owner thread */
	R0.posts_started++;
	R0.last_post_seq = ++seq;
	iv_event_raw_post(R0.p);
}

static void poster(void *dummy)
{
	const char *s;
	(void)dummy;
	for (s = prog; *s; s++) {
		switch (*s) {
		case '1': do_post(&R0, "P", 1); break;
		case 'b': do_post(&R0, "P", 5000); break;
		case 's':
			mc_obs("P:signal-owner");
			sched_signal(0, SIGUSR2);
			sched_yield_point("signalled");
			break;
		case 'c': {
			pid_t pid;
			int st;
			mc_obs("P:child-posts");
			R0.posts_started++;
			R0.last_post_seq = ++seq;
			check_nonblock(&R0, "child");
			sched_atomic_begin();
			pid = fork();
			if (pid == 0) {
				iv_event_raw_post(R0.p);
				_exit(0);
			}
			while (waitpid(pid, &st, 0) < 0 && errno == EINTR)
				;
			sched_atomic_end();
			if (!WIFEXITED(st) || WEXITSTATUS(st))
				mc_fail("raw-child", "child posting to the raw event ended with status 0x%x", st);
			break;
		}
		}
	}
	do_post(&RD, "P", 1);
}

static void otimer_cb(void *dummy)
{
	(void)dummy;
	mc_obs("O:timer");
	if (R0.reg)
		do_post(&R0, "O", 1);
	maybe_finish();
}

static int quiescent(void)
{
	if (R0.reg && R0.posts_started && R0.last_handler_seq < R0.last_post_seq)
		mc_fail("raw-lost", "owner blocked for good: a post to R0 (%ld posted) was never followed by its handler (ran %ld times)", R0.posts_started, R0.handled);
	if (RD.reg && RD.posts_started && RD.last_handler_seq < RD.last_post_seq)
		mc_fail("raw-lost", "owner blocked for good: the post to RD was never followed by its handler");
	mc_fail("stuck", "owner blocked with no wake-up source (poster done: %d)", poster_done);
}

static const char *PROGS[] = { "1", "11", "b", "s", "c", "1s", "s1", "b1", "c1", "1b" };
static const char *bname[] = { "eventfd2", "old-eventfd", "pipe" };

static int parse_list(const char *s, int *out, int max)
{
	int n = 0;
	while (*s && n < max) {
		char *e;
		long a = strtol(s, &e, 10), b;
		if (e == s) break;
		b = a;
		if (*e == '-') b = strtol(e + 1, &e, 10);
		for (; a <= b && n < max; a++) out[n++] = a;
		s = e;
		if (*s == ',') s++;
	}
	return n;
}

static void exec_one(void)
{
	int pl[16], np, ml[4], nm, bl[3], nb, method, otm;
	struct sigaction sa;
	static const char *excl[4] = { "", "epoll-timerfd", "epoll-timerfd epoll", "epoll-timerfd epoll ppoll" };

	env_init();
	sched_init();
	sched_on_quiescence = quiescent;
	sched_fault_eintr = mc_arg_int("eintr", 0);
	sched_max_points = mc_arg_int("maxpoints", 3000);
	np = parse_list(mc_arg("progs", "0-9"), pl, 16);
	nm = parse_list(mc_arg("methods", "0-3"), ml, 4);
	nb = parse_list(mc_arg("backings", "0-2"), bl, 3);
	owner_posts = mc_arg_int("oposts", 1);
	backing = bl[mc_choose(nb, MC_CONFIG, "backing")];
	method = ml[mc_choose(nm, MC_CONFIG, "method")];
	prog = PROGS[pl[mc_choose(np, MC_CONFIG, "prog")]];
	otm = mc_choose(2, MC_CONFIG, "owner-timer-post");
	env_exclude_methods = excl[method];
	if (backing >= 1)
		env_sc_errno[ENV_SC_EVENTFD2] = ENOSYS;
	if (backing == 2)
		env_sc_errno[ENV_SC_EVENTFD] = ENOSYS;
	env_pipe_size = 4096;
	mc_obs("%s m%d prog=%s otimer=%d", bname[backing], method, prog, otm);

	memset(&sa, 0, sizeof(sa));
	sa.sa_handler = sig_handler;
	sigfillset(&sa.sa_mask);
	sigaction(SIGUSR2, &sa, NULL);

	allocs0 = env_lib_allocs_live;
	iv_init();
	R0.name = "R0"; RD.name = "RD";
	if (mc_choose(2, MC_CONFIG, "register-churn")) {
		/* other raw events come and go around R0 in a non-LIFO order (the poll back end moves table entries) */
		static struct raw XA, XB;
		XA.name = "XA"; XB.name = "XB";
		mk_raw(&XA);
		mk_raw(&XB);
		rm_raw(&XA);
		mk_raw(&R0);
		rm_raw(&XB);
		mc_obs("O:churn");
	} else {
		mk_raw(&R0);
	}
	mk_raw(&RD);
	if (backing < 2 && mc_choose(2, MC_CONFIG, "later-register-fails")) {
		/* a later registration hits a transient EMFILE: it must fail cleanly and leave the others working */
		struct iv_event_raw *x = malloc(sizeof(*x));
		int ret;
		memset(x, 0xbe, sizeof(*x));
		IV_EVENT_RAW_INIT(x);
		x->cookie = NULL;
		x->handler = r_handler;
		env_fail_next_evfd_errno = EMFILE;
		ret = iv_event_raw_register(x);
		env_fail_next_evfd_errno = 0;
		mc_obs("O:reg-fails=%d", ret);
		if (ret == 0)
			iv_event_raw_unregister(x);
		free(x);
	}
	IV_TIMER_INIT(&otimer);
	if (otm) {
		otimer.expires = env_now;
		otimer.expires.tv_nsec += 10000000;
		otimer.handler = otimer_cb;
		iv_timer_register(&otimer);
	}
	poster_tid = sched_spawn("P", poster, NULL);
	mc_obs("O:main");
	iv_main();
	mc_obs("O:ret");
	if (!poster_done)
		mc_fail("main-return-early", "iv_main returned with the poster outstanding");
	iv_deinit();
	if (env_lib_allocs_live != allocs0)
		mc_fail("leak-mem", "%ld library allocations live after iv_deinit", env_lib_allocs_live - allocs0);
	if (env_lib_fds_open()) {
		char b[200];
		env_lib_fds_list(b, sizeof(b));
		mc_fail("leak-fd", "library descriptors left open after iv_deinit: %s", b);
	}
	mc_done();
}

int main(int argc, char **argv)
{
	static const struct mc_harness h = { .name = "h_raw", .exec = exec_one, .timeout_s = 30 };
	return mc_main(argc, argv, &h);
}
