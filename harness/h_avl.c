/*
 * h_avl: exhaustive checks of /repo/src/iv_avl.c (property C16).
 *
 *  part "shapes":  every height-balanced shape of height <= H (default 5),
 *                  every insertion gap, every duplicate key, every victim.
 *  part "fib":     every minimal-node (Fibonacci) shape up to height F.
 *  part "closure": explicit-state BFS of insert/delete over a key universe
 *                  of U keys from the empty tree (every reachable
 *                  (key set, shape) state expanded once).
 *
 * Oracle after every operation: full structural walk (parent links, BST
 * order, recorded height == real height, |balance| <= 1), node set equals
 * the reference set, min/next and max/prev traversals equal the sorted
 * reference, duplicate insert fails and changes nothing.
 */
#ifndef _GNU_SOURCE
#define _GNU_SOURCE
#endif
#include <stdio.h>
#include <stdlib.h>
#include <string.h>
#include <stdint.h>
#include <unistd.h>
#include <sys/mman.h>
#include <sys/wait.h>
#include <time.h>
#include <iv_avl.h>

const char *__asan_default_options(void) { return "detect_leaks=0:exitcode=44"; }

#define MAXN 160

struct node {
	struct iv_avl_node an;
	int key;
};

static int cmp(const struct iv_avl_node *a, const struct iv_avl_node *b)
{
	int ka = ((const struct node *)a)->key, kb = ((const struct node *)b)->key;
	return ka < kb ? -1 : ka > kb ? 1 : 0;
}

/* ---------- shape DAG: shapes[h] = all balanced shapes of exact height h */
struct shape { int lh, li, rh, ri, n; };
static struct shape *shapes[8];
static long nshapes[8];

static void gen_shapes(int H, int fib_only)
{
	int h;
	shapes[0] = calloc(1, sizeof(struct shape));
	nshapes[0] = 1;                 /* the empty tree */
	for (h = 1; h <= H; h++) {
		long cap = 16, n = 0;
		int c;
		struct shape *v = malloc(cap * sizeof(*v));
		for (c = 0; c < 3; c++) {
			int lh = (c == 2) ? h - 2 : h - 1;
			int rh = (c == 1) ? h - 2 : h - 1;
			long a, b;
			if (lh < 0 || rh < 0)
				continue;
			if (fib_only && c == 0 && h > 1)
				continue;   /* minimal-node shapes: children differ in height */
			for (a = 0; a < nshapes[lh]; a++)
				for (b = 0; b < nshapes[rh]; b++) {
					if (n == cap) {
						cap *= 2;
						v = realloc(v, cap * sizeof(*v));
					}
					v[n].lh = lh; v[n].li = a; v[n].rh = rh; v[n].ri = b;
					v[n].n = 1 + shapes[lh][a].n + shapes[rh][b].n;
					n++;
				}
		}
		shapes[h] = v;
		nshapes[h] = n;
	}
}

/* ---------- building / checking */
static struct node pool[MAXN];
static int npool;
static struct iv_avl_tree tree;

static struct iv_avl_node *build(int h, long idx, int *nextkey, struct iv_avl_node *parent)
{
	struct shape *s;
	struct node *nd;
	if (h == 0)
		return NULL;
	s = &shapes[h][idx];
	nd = &pool[npool++];
	nd->an.parent = parent;
	nd->an.height = h;
	nd->an.left = build(s->lh, s->li, nextkey, &nd->an);
	nd->key = *nextkey;
	*nextkey += 2;
	nd->an.right = build(s->rh, s->ri, nextkey, &nd->an);
	return &nd->an;
}

static char failmsg[1024];
static char curdesc[2048];

static int walk(struct iv_avl_node *an, struct iv_avl_node *parent, int lo, int hi, int *count, int *keys)
{
	int hl, hr, h;
	struct node *nd = (struct node *)an;
	if (an == NULL)
		return 0;
	if (an->parent != parent) {
		snprintf(failmsg, sizeof(failmsg), "parent link of key %d wrong", nd->key);
		return -1;
	}
	if (nd->key <= lo || nd->key >= hi) {
		snprintf(failmsg, sizeof(failmsg), "BST order violated at key %d (%d,%d)", nd->key, lo, hi);
		return -1;
	}
	if (*count >= MAXN) {
		snprintf(failmsg, sizeof(failmsg), "cycle / too many nodes");
		return -1;
	}
	hl = walk(an->left, an, lo, nd->key, count, keys);
	if (hl < 0)
		return -1;
	keys[(*count)++] = nd->key;
	hr = walk(an->right, an, nd->key, hi, count, keys);
	if (hr < 0)
		return -1;
	h = 1 + (hl > hr ? hl : hr);
	if (an->height != h) {
		snprintf(failmsg, sizeof(failmsg), "recorded height %d != real height %d at key %d", an->height, h, nd->key);
		return -1;
	}
	if (hl - hr > 1 || hr - hl > 1) {
		snprintf(failmsg, sizeof(failmsg), "unbalanced at key %d (left %d right %d)", nd->key, hl, hr);
		return -1;
	}
	return h;
}

/* check the tree against the sorted reference ref[0..nref-1] */
static int check(const int *ref, int nref)
{
	int keys[MAXN], count = 0, i;
	struct iv_avl_node *an;

	if (walk(tree.root, NULL, -1000000, 1000000, &count, keys) < 0)
		return -1;
	if (count != nref) {
		snprintf(failmsg, sizeof(failmsg), "tree has %d nodes, reference has %d", count, nref);
		return -1;
	}
	for (i = 0; i < nref; i++)
		if (keys[i] != ref[i]) {
			snprintf(failmsg, sizeof(failmsg), "in-order key %d is %d, reference %d", i, keys[i], ref[i]);
			return -1;
		}
	i = 0;
	iv_avl_tree_for_each (an, &tree) {
		if (i >= nref || ((struct node *)an)->key != ref[i]) {
			snprintf(failmsg, sizeof(failmsg), "forward traversal differs at position %d", i);
			return -1;
		}
		i++;
	}
	if (i != nref) {
		snprintf(failmsg, sizeof(failmsg), "forward traversal visited %d of %d", i, nref);
		return -1;
	}
	i = nref - 1;
	for (an = iv_avl_tree_max(&tree); an != NULL; an = iv_avl_tree_prev(an)) {
		if (i < 0 || ((struct node *)an)->key != ref[i]) {
			snprintf(failmsg, sizeof(failmsg), "backward traversal differs at position %d", i);
			return -1;
		}
		i--;
	}
	if (i != -1) {
		snprintf(failmsg, sizeof(failmsg), "backward traversal stopped early");
		return -1;
	}
	if ((nref == 0) != iv_avl_tree_empty(&tree)) {
		snprintf(failmsg, sizeof(failmsg), "iv_avl_tree_empty wrong");
		return -1;
	}
	return 0;
}

static void ser(struct iv_avl_node *an, char **p)
{
	if (!an) {
		*(*p)++ = '.';
		return;
	}
	*p += sprintf(*p, "(%d", ((struct node *)an)->key);
	ser(an->left, p);
	ser(an->right, p);
	*(*p)++ = ')';
}

static void serialize(char *buf)
{
	char *p = buf;
	ser(tree.root, &p);
	*p = 0;
}

/* parse a serialized tree into pool/tree (exact heights) */
static struct iv_avl_node *parse(const char **s, struct iv_avl_node *parent)
{
	struct node *nd;
	int hl, hr;
	if (**s == '.') {
		(*s)++;
		return NULL;
	}
	if (**s != '(')
		return NULL;
	(*s)++;
	nd = &pool[npool++];
	nd->key = strtol(*s, (char **)s, 10);
	nd->an.parent = parent;
	nd->an.left = parse(s, &nd->an);
	nd->an.right = parse(s, &nd->an);
	if (**s == ')')
		(*s)++;
	hl = nd->an.left ? nd->an.left->height : 0;
	hr = nd->an.right ? nd->an.right->height : 0;
	nd->an.height = 1 + (hl > hr ? hl : hr);
	return &nd->an;
}

static void load(const char *s)
{
	npool = 0;
	INIT_IV_AVL_TREE(&tree, cmp);
	tree.root = parse(&s, NULL);
}

/* ---------- shared result block */
struct result {
	unsigned long shapes, ops, ins, dup, del;
	int failed;
	char rule[64];
	char msg[1024];
	char replay[2560];
	char sample[4][256];
	int nsample;
};
static struct result *R;       /* array, one per worker */

static void report(struct result *r, const char *rule, const char *op, int key)
{
	if (r->failed)
		return;
	r->failed = 1;
	snprintf(r->rule, sizeof(r->rule), "%s", rule);
	snprintf(r->msg, sizeof(r->msg), "%s after %s %d on %s", failmsg, op, key, curdesc);
	snprintf(r->replay, sizeof(r->replay), "%s|%s|%d", curdesc, op, key);
}

/* apply all single operations to the tree described by (h, idx) */
static void ops_on_shape(struct result *r, int h, long idx)
{
	int n = shapes[h][idx].n, i, nk, ref[MAXN], k;
	char *p;

	/* description for replay: built once */
	npool = 0; nk = 2;
	INIT_IV_AVL_TREE(&tree, cmp);
	tree.root = build(h, idx, &nk, NULL);
	p = curdesc;
	ser(tree.root, &p);
	*p = 0;
	for (i = 0; i < n; i++)
		ref[i] = 2 * (i + 1);
	failmsg[0] = 0;
	if (check(ref, n) < 0) {
		report(r, "harness-self-check", "build", 0);
		return;
	}
	r->shapes++;
	if (r->nsample < 4 && (r->shapes == 1 || (r->shapes & (r->shapes - 1)) == 0) && h >= 3)
		snprintf(r->sample[r->nsample++], 256, "%.200s", curdesc);

	/* insertions into every gap (odd keys 1..2n+1) */
	for (k = 1; k <= 2 * n + 1; k += 2) {
		struct node *nn;
		int ref2[MAXN], j = 0, m;
		npool = 0; nk = 2;
		tree.root = build(h, idx, &nk, NULL);
		nn = &pool[npool++];
		memset(nn, 0xa5, sizeof(*nn));
		nn->key = k;
		for (m = 0; m < n; m++) {
			if (ref[m] > k && j == m)
				ref2[j++] = k;
			ref2[j++] = ref[m];
		}
		if (j == n)
			ref2[j++] = k;
		if (iv_avl_tree_insert(&tree, &nn->an) != 0) {
			snprintf(failmsg, sizeof(failmsg), "insert of absent key failed");
			report(r, "avl-insert", "ins", k);
			return;
		}
		r->ops++; r->ins++;
		if (check(ref2, n + 1) < 0) {
			report(r, "avl-insert", "ins", k);
			return;
		}
	}
	/* duplicate insertions: must fail and change nothing */
	for (k = 2; k <= 2 * n; k += 2) {
		struct node *nn;
		char before[2048], after[2048];
		npool = 0; nk = 2;
		tree.root = build(h, idx, &nk, NULL);
		serialize(before);
		nn = &pool[npool++];
		memset(nn, 0xa5, sizeof(*nn));
		nn->key = k;
		if (iv_avl_tree_insert(&tree, &nn->an) == 0) {
			snprintf(failmsg, sizeof(failmsg), "duplicate insert succeeded");
			report(r, "avl-dup", "dup", k);
			return;
		}
		r->ops++; r->dup++;
		serialize(after);
		if (strcmp(before, after) || check(ref, n) < 0) {
			if (!failmsg[0])
				snprintf(failmsg, sizeof(failmsg), "duplicate insert changed the tree");
			report(r, "avl-dup", "dup", k);
			return;
		}
	}
	/* re-inserting a node object that is already in the tree (its key is
	 * present): must fail and change nothing */
	for (i = 0; i < n; i++) {
		char before[2048], after[2048];
		struct node *self = NULL;
		int m;
		npool = 0; nk = 2;
		tree.root = build(h, idx, &nk, NULL);
		serialize(before);
		for (m = 0; m < npool; m++)
			if (pool[m].key == 2 * (i + 1))
				self = &pool[m];
		failmsg[0] = 0;
		if (iv_avl_tree_insert(&tree, &self->an) == 0) {
			snprintf(failmsg, sizeof(failmsg), "re-insert of a linked node succeeded");
			report(r, "avl-dup", "reins", 2 * (i + 1));
			return;
		}
		r->ops++; r->dup++;
		serialize(after);
		if (strcmp(before, after) || check(ref, n) < 0) {
			if (!failmsg[0])
				snprintf(failmsg, sizeof(failmsg), "failed re-insert changed the tree");
			report(r, "avl-dup", "reins", 2 * (i + 1));
			return;
		}
	}
	/* deletion of every node */
	for (i = 0; i < n; i++) {
		int ref2[MAXN], j = 0, m, key;
		struct node *victim = NULL;
		npool = 0; nk = 2;
		tree.root = build(h, idx, &nk, NULL);
		key = 2 * (i + 1);
		for (m = 0; m < npool; m++)
			if (pool[m].key == key)
				victim = &pool[m];
		for (m = 0; m < n; m++)
			if (ref[m] != key)
				ref2[j++] = ref[m];
		iv_avl_tree_delete(&tree, &victim->an);
		memset(victim, 0xa5, sizeof(*victim));   /* caller may reuse it at once */
		r->ops++; r->del++;
		if (check(ref2, n - 1) < 0) {
			report(r, "avl-delete", "del", key);
			return;
		}
	}
}

/* ---------- closure over a key universe */
struct hset { char **tab; size_t cap, n; };
static uint64_t hstr(const char *s)
{
	uint64_t h = 1469598103934665603ULL;
	for (; *s; s++) { h ^= (unsigned char)*s; h *= 1099511628211ULL; }
	return h;
}
static int hset_add(struct hset *hs, const char *s)
{
	size_t i;
	if (hs->n * 2 >= hs->cap) {
		size_t oc = hs->cap, k;
		char **ot = hs->tab;
		hs->cap = oc ? oc * 2 : 1 << 16;
		hs->tab = calloc(hs->cap, sizeof(char *));
		for (k = 0; k < oc; k++)
			if (ot[k]) {
				size_t j = hstr(ot[k]) & (hs->cap - 1);
				while (hs->tab[j]) j = (j + 1) & (hs->cap - 1);
				hs->tab[j] = ot[k];
			}
		free(ot);
	}
	i = hstr(s) & (hs->cap - 1);
	while (hs->tab[i]) {
		if (!strcmp(hs->tab[i], s))
			return 0;
		i = (i + 1) & (hs->cap - 1);
	}
	hs->tab[i] = strdup(s);
	hs->n++;
	return 1;
}

static void collect(struct iv_avl_node *an, int *ref, int *n)
{
	if (!an) return;
	collect(an->left, ref, n);
	ref[(*n)++] = ((struct node *)an)->key;
	collect(an->right, ref, n);
}

static void closure(struct result *r, int U, double deadline, int *complete)
{
	struct hset seen = { 0 };
	char **queue;
	size_t qh = 0, qt = 0, qcap = 1 << 20;
	char buf[2048];
	struct timespec ts;

	queue = malloc(qcap * sizeof(char *));
	hset_add(&seen, ".");
	queue[qt++] = strdup(".");
	*complete = 1;
	while (qh < qt) {
		char *st = queue[qh++];
		int ref[MAXN], n = 0, k, i;
		load(st);
		collect(tree.root, ref, &n);
		snprintf(curdesc, sizeof(curdesc), "%s", st);
		for (k = 1; k <= U; k++) {
			int present = 0, ref2[MAXN], j = 0;
			struct node *nn;
			for (i = 0; i < n; i++)
				if (ref[i] == k)
					present = 1;
			/* insert k (dup if present) */
			load(st);
			nn = &pool[npool++];
			memset(nn, 0xa5, sizeof(*nn));
			nn->key = k;
			failmsg[0] = 0;
			if (present) {
				if (iv_avl_tree_insert(&tree, &nn->an) == 0) {
					snprintf(failmsg, sizeof(failmsg), "duplicate insert succeeded");
					report(r, "avl-dup", "dup", k);
					return;
				}
				serialize(buf);
				r->ops++; r->dup++;
				if (strcmp(buf, st) || check(ref, n) < 0) {
					if (!failmsg[0])
						snprintf(failmsg, sizeof(failmsg), "duplicate insert changed the tree");
					report(r, "avl-dup", "dup", k);
					return;
				}
			} else {
				for (i = 0; i < n; i++) {
					if (ref[i] > k && j == i)
						ref2[j++] = k;
					ref2[j++] = ref[i];
				}
				if (j == n)
					ref2[j++] = k;
				if (iv_avl_tree_insert(&tree, &nn->an) != 0) {
					snprintf(failmsg, sizeof(failmsg), "insert of absent key failed");
					report(r, "avl-insert", "ins", k);
					return;
				}
				r->ops++; r->ins++;
				if (check(ref2, n + 1) < 0) {
					report(r, "avl-insert", "ins", k);
					return;
				}
				serialize(buf);
				if (hset_add(&seen, buf)) {
					if (qt == qcap) {
						qcap *= 2;
						queue = realloc(queue, qcap * sizeof(char *));
					}
					queue[qt++] = strdup(buf);
				}
			}
			/* delete k if present */
			if (present) {
				struct node *victim = NULL;
				load(st);
				for (i = 0; i < npool; i++)
					if (pool[i].key == k)
						victim = &pool[i];
				j = 0;
				for (i = 0; i < n; i++)
					if (ref[i] != k)
						ref2[j++] = ref[i];
				iv_avl_tree_delete(&tree, &victim->an);
				memset(victim, 0xa5, sizeof(*victim));
				r->ops++; r->del++;
				if (check(ref2, n - 1) < 0) {
					report(r, "avl-delete", "del", k);
					return;
				}
				serialize(buf);
				if (hset_add(&seen, buf)) {
					if (qt == qcap) {
						qcap *= 2;
						queue = realloc(queue, qcap * sizeof(char *));
					}
					queue[qt++] = strdup(buf);
				}
			}
		}
		r->shapes++;
		if (r->nsample < 4 && (r->shapes & (r->shapes - 1)) == 0 && n >= 5)
			snprintf(r->sample[r->nsample++], 256, "%.200s", st);
		if ((qh & 1023) == 0 && deadline > 0) {
			clock_gettime(CLOCK_MONOTONIC, &ts);
			if (ts.tv_sec + ts.tv_nsec / 1e9 > deadline) {
				*complete = 0;
				break;
			}
		}
	}
}

static const char *arg(int argc, char **argv, const char *key, const char *d)
{
	int i;
	size_t l = strlen(key);
	for (i = 1; i < argc; i++)
		if (!strncmp(argv[i], key, l) && argv[i][l] == '=')
			return argv[i] + l + 1;
	return d;
}

static void jstr(FILE *f, const char *s)
{
	fputc('"', f);
	for (; *s; s++) {
		if (*s == '"' || *s == '\\') fputc('\\', f);
		if ((unsigned char)*s < 0x20) { fprintf(f, "\\u%04x", *s); continue; }
		fputc(*s, f);
	}
	fputc('"', f);
}

int main(int argc, char **argv)
{
	const char *part = arg(argc, argv, "part", "shapes");
	int H = atoi(arg(argc, argv, "height", "5"));
	int U = atoi(arg(argc, argv, "universe", "10"));
	int W = atoi(arg(argc, argv, "workers", "16"));
	double dl = atof(arg(argc, argv, "deadline", "0"));
	const char *out = arg(argc, argv, "out", NULL);
	const char *replay = arg(argc, argv, "replay", NULL);
	struct timespec t0, t1;
	double deadline = 0;
	int w, complete = 1, failed = 0;
	unsigned long shapes_n = 0, ops = 0, ins = 0, dup = 0, del = 0;
	FILE *f;

	clock_gettime(CLOCK_MONOTONIC, &t0);
	if (dl > 0)
		deadline = t0.tv_sec + t0.tv_nsec / 1e9 + dl;
	R = mmap(NULL, sizeof(struct result) * 64, PROT_READ | PROT_WRITE, MAP_SHARED | MAP_ANONYMOUS, -1, 0);

	if (replay) {
		/* "<tree>|<op>|<key>" */
		char tr[2048], op[16];
		int key, ref[MAXN], n = 0, i, j = 0, ref2[MAXN], rc;
		struct node *nn;
		if (sscanf(replay, "%2047[^|]|%15[^|]|%d", tr, op, &key) != 3) {
			fprintf(stderr, "bad replay\n");
			return 3;
		}
		load(tr);
		collect(tree.root, ref, &n);
		failmsg[0] = 0;
		if (!strcmp(op, "del")) {
			struct node *victim = NULL;
			for (i = 0; i < npool; i++) if (pool[i].key == key) victim = &pool[i];
			for (i = 0; i < n; i++) if (ref[i] != key) ref2[j++] = ref[i];
			iv_avl_tree_delete(&tree, &victim->an);
			rc = check(ref2, j);
		} else if (!strcmp(op, "reins")) {
			struct node *self = NULL;
			char before[2048];
			serialize(before);
			for (i = 0; i < npool; i++) if (pool[i].key == key) self = &pool[i];
			rc = iv_avl_tree_insert(&tree, &self->an);
			if (rc == 0) { snprintf(failmsg, sizeof(failmsg), "re-insert of a linked node succeeded"); rc = -1; }
			else {
				rc = check(ref, n);
				serialize(tr);
				if (rc == 0 && strcmp(before, tr)) { snprintf(failmsg, sizeof(failmsg), "failed re-insert changed the tree"); rc = -1; }
			}
		} else {
			int present = 0;
			for (i = 0; i < n; i++) if (ref[i] == key) present = 1;
			nn = &pool[npool++];
			nn->key = key;
			rc = iv_avl_tree_insert(&tree, &nn->an);
			if (present) {
				if (rc == 0) { snprintf(failmsg, sizeof(failmsg), "duplicate insert succeeded"); rc = -1; }
				else rc = check(ref, n);
			} else {
				for (i = 0; i < n; i++) { if (ref[i] > key && j == i) ref2[j++] = key; ref2[j++] = ref[i]; }
				if (j == n) ref2[j++] = key;
				if (rc == 0) rc = check(ref2, j);
				else snprintf(failmsg, sizeof(failmsg), "insert of absent key failed");
			}
		}
		serialize(tr);
		printf("replay: %s -> %s : %s %s\n", replay, tr, rc < 0 ? "VIOLATION" : "ok", failmsg);
		return rc < 0 ? 1 : 0;
	}

	if (!strcmp(part, "closure")) {
		gen_shapes(0, 0);
		closure(&R[0], U, deadline, &complete);
		W = 1;
	} else {
		int fib = !strcmp(part, "fib");
		pid_t pids[64];
		gen_shapes(H, fib);
		if (W > 64) W = 64;
		for (w = 0; w < W; w++) {
			pids[w] = fork();
			if (pids[w] == 0) {
				int h;
				long idx;
				for (h = 1; h <= H; h++)
					for (idx = w; idx < nshapes[h]; idx += W) {
						ops_on_shape(&R[w], h, idx);
						if (R[w].failed)
							_exit(0);
						if (deadline > 0 && (idx & 255) == 0) {
							clock_gettime(CLOCK_MONOTONIC, &t1);
							if (t1.tv_sec + t1.tv_nsec / 1e9 > deadline) {
								R[w].failed = -1;
								_exit(0);
							}
						}
					}
				_exit(0);
			}
		}
		for (w = 0; w < W; w++) {
			int st;
			waitpid(pids[w], &st, 0);
			if (!WIFEXITED(st) || WEXITSTATUS(st)) {
				/* crash inside the library (sanitizer / signal) */
				if (!R[w].failed) {
					R[w].failed = 1;
					snprintf(R[w].rule, 64, "crash");
					snprintf(R[w].msg, 1024, "worker died with status 0x%x (sanitizer report or signal) on %s", st, "see stderr");
				}
			}
		}
	}
	clock_gettime(CLOCK_MONOTONIC, &t1);

	f = out ? fopen(out, "w") : stdout;
	fprintf(f, "{\"harness\":\"h_avl\",\"part\":\"%s\",\"params\":{\"height\":%d,\"universe\":%d},", part, H, U);
	for (w = 0; w < W; w++) {
		shapes_n += R[w].shapes; ops += R[w].ops; ins += R[w].ins; dup += R[w].dup; del += R[w].del;
		if (R[w].failed == -1)
			complete = 0;
	}
	fprintf(f, "\"states\":%lu,\"transitions\":%lu,\"inserts\":%lu,\"dup_inserts\":%lu,\"deletes\":%lu,",
		shapes_n, ops, ins, dup, del);
	if (strcmp(part, "closure")) {
		int h;
		fprintf(f, "\"shapes_per_height\":[");
		for (h = 0; h <= H; h++)
			fprintf(f, "%s%ld", h ? "," : "", nshapes[h]);
		fprintf(f, "],");
	}
	fprintf(f, "\"samples\":[");
	{
		int first = 1, k;
		for (w = 0; w < W; w++)
			for (k = 0; k < R[w].nsample && first < 6; k++) {
				fprintf(f, "%s", first > 1 ? "," : "");
				jstr(f, R[w].sample[k]);
				first++;
			}
	}
	fprintf(f, "],\"violations\":[");
	for (w = 0; w < W; w++)
		if (R[w].failed == 1) {
			fprintf(f, "%s{\"rule\":", failed ? "," : "");
			jstr(f, R[w].rule);
			fprintf(f, ",\"msg\":");
			jstr(f, R[w].msg);
			fprintf(f, ",\"replay\":");
			jstr(f, R[w].replay);
			fprintf(f, "}");
			failed++;
		}
	fprintf(f, "],\"complete\":%s,\"wall_s\":%.3f}\n", complete ? "true" : "false",
		(t1.tv_sec - t0.tv_sec) + (t1.tv_nsec - t0.tv_nsec) / 1e9);
	if (out)
		fclose(f);
	fprintf(stderr, "[h_avl %s] states=%lu ops=%lu viol=%d complete=%d\n", part, shapes_n, ops, failed, complete);
	return failed ? 1 : 0;
}
