/*
 * h_loop: single-threaded event-loop harness (DESIGN.md 3: C01-C04, C06,
 * C07, C15, C18).  The program run against the library is not fixed: at
 * setup and on entry to every callback the choice oracle picks the next valid
 * API action; at every point where the loop would block it picks the next
 * external stimulus.  Oracles compare with a small reference model.
 */
#ifndef _GNU_SOURCE
#define _GNU_SOURCE
#endif
#include <errno.h>
#include <fcntl.h>
#include <poll.h>
#include <signal.h>
#include <stdio.h>
#include <stdlib.h>
#include <string.h>
#include <unistd.h>
#include <sys/socket.h>
#include <sys/epoll.h>
#include <iv.h>
#include <iv_event.h>
#include <iv_event_raw.h>
#include <iv_signal.h>
#include <iv_work.h>
#include "iv_private.h"
#include "mc.h"
#include "env.h"

#define NFD 3
#define NTM 8
#define NTK 3
#define NEV 2
#define NRAW 2
#undef NSIG
#define NSIG 2
#define NWK 2

enum { B_IN, B_OUT, B_ERR };
enum { KD_FD, KD_TM, KD_TK, KD_EV, KD_RAW, KD_SIG, KD_WK };
static const char *kdname[] = { "fd", "tm", "tk", "ev", "raw", "sig", "wk" };

struct cookie { int kind, slot, gen; };
static struct cookie cookies[512];
static int ncookies;

static struct cookie *new_cookie(int kind, int slot, int gen)
{
	struct cookie *c;
	if (ncookies >= 512)
		mc_broken("cookie pool exhausted");
	c = &cookies[ncookies++];
	c->kind = kind; c->slot = slot; c->gen = gen;
	return c;
}

struct fdslot {
	struct iv_fd *p;
	int reg, gen;
	int lfd, pfd;           /* library side / peer side; -1 if none */
	int hv[3];              /* installed handler variant per band: 0 none, 1 A, 2 B */
	int peer_closed, peer_shut;
	int is_pipe;            /* backed by the write end of a pipe (pfd = its read end) instead of a socket pair */
	int fed, filled;
	int unserved[3];        /* consecutive wait entries wanted+ready without invocation */
	int called_iter[3];
	int reported;           /* band mask allowed by the events the kernel returned at the last wait */
	int touched;            /* handlers changed since the last wait entry */
	int drained_iter;       /* data consumed since the last wait entry */
};
struct tmslot { struct iv_timer *p; int reg, gen; struct timespec exp; int fired_gen; int overdue_polls; };
struct tkslot { struct iv_task *p; int reg, gen; int ran_iter; int reg_from_ran; };
struct evslot { struct iv_event *p; int reg, gen; int pending; };
struct rawslot { struct iv_event_raw *p; int reg, gen; int pending; int reported_gen, called_iter; };
struct sigslot { struct iv_signal *p; int reg, gen; int pending; int flags; };
struct wkslot { struct iv_work_item *p; int submitted, gen; int worked, completed; };

static struct fdslot F[NFD];
static struct tmslot T[NTM];
static struct tkslot K[NTK];
static struct evslot E[NEV];
static struct rawslot RW[NRAW];
static struct sigslot SG[NSIG];
static struct wkslot WK[NWK];

/* profile */
static int nfd = 2, ntm = 2, ntk = 2, nev = 1, nraw = 0, nsig = 0, nwk = 0;
static int acts_per_cb = 2, setup_acts = 3, horizon = 10;
static unsigned long opmask = ~0UL & ~(1UL << 29);   /* all classes except the opt-in ones (OPT_IN_OPS, see below) */
static int fault_eintr_wait, fault_eintr_io, fault_emfile, fault_sc;
static const char *rules;
static int use_hash;
static int nofree, tkkeep, fdkeep;
static int fd_reuse_inited[8];
static int poison = 0xbe;
static struct iv_fd *fd_reuse[NFD];
static long long drift_ns;

/* run state */
static int iter;                 /* wait entries so far */
static int in_main, cb_depth, quit_req, in_try;
static int zero_progress_waits;
static int callbacks_since_wait, eintr_since_wait;
static struct timespec last_wait_time;
static int method_idx;
static int main_returned;
static int empty_polls;
static int autotask_left;
static int prev_wait_eintr;
static int reenter_left;
static int reuse_fd = -1, reuse_wfd = -1;
static int script_iter, script_done;
static struct act script_act;
#define prev_wait_eintr_for_skip 0
static int cycle, cycles;

static int rule_on(const char *r)
{
	/* rules= is a comma separated list of prefixes; "all" enables everything */
	const char *p = rules;
	size_t l;
	if (!rules || !strcmp(rules, "all"))
		return 1;
	while (*p) {
		const char *e = strchr(p, ',');
		l = e ? (size_t)(e - p) : strlen(p);
		if (l && !strncmp(r, p, l))
			return 1;
		if (!e)
			break;
		p = e + 1;
	}
	return 0;
}

#define FAIL(rule, ...) do { if (rule_on(rule)) mc_fail(rule, __VA_ARGS__); } while (0)

/* ------------------------------------------------------------- actions */
enum {
	OP_LEAVE, OP_FD_REG, OP_FD_TRY, OP_FD_TRYBAD, OP_FD_UNREG, OP_FD_SETH, OP_FD_FEED, OP_FD_DRAIN,
	OP_FD_FILL, OP_FD_UNFILL, OP_FD_PCLOSE, OP_FD_PSHUT,
	OP_TM_REG, OP_TM_UNREG, OP_TK_REG, OP_TK_UNREG,
	OP_EV_REG, OP_EV_UNREG, OP_EV_POST, OP_RAW_REG, OP_RAW_UNREG, OP_RAW_POST,
	OP_SIG_REG, OP_SIG_UNREG, OP_SIG_RAISE, OP_QUIT, OP_TIMEPASS, OP_WK_SUBMIT, OP_EV_REGFAIL, OP_FD_COOKIE, NOP
};
static const char *opnm[NOP] = { "leave", "fdreg", "fdtry", "fdtrybad", "fdunreg", "fdseth", "feed", "drain",
	"fill", "unfill", "pclose", "pshut", "tmreg", "tmunreg", "tkreg", "tkunreg", "evreg", "evunreg", "evpost",
	"rawreg", "rawunreg", "rawpost", "sigreg", "sigunreg", "raise", "quit", "timepass", "wksubmit", "evregfail", "fdcookie" };
/* classes added after round 4 are opt-in (named in ops=): the runs that use the full alphabet keep their meaning */
#define OPT_IN_OPS (1UL << OP_FD_COOKIE)
struct act { int op, a, b, c; };

#define NTMCLASS 6
static const char *tmclass[13] = { "zero", "past", "now", "+1ns", "+10ms", "far", "+20ms", "+30ms", "+40ms", "+50ms", "+60ms", "+70ms", "+30d" };
#define NFDPRESET 6     /* handler presets at registration */
static const int fdpreset[NFDPRESET][3] = { { 1, 0, 0 }, { 0, 0, 0 }, { 1, 1, 1 }, { 0, 1, 0 }, { 0, 0, 1 }, { 1, 1, 0 } };

static int fd_truth(struct fdslot *f);
static void (*fd_handlers[3][3])(void *);
static void tm_cb(void *), tk_cb(void *), ev_cb(void *), raw_cb(void *), sig_cb(void *), wk_work(void *), wk_done(void *);

static void act_name(const struct act *a, char *buf, int len)
{
	switch (a->op) {
	case OP_FD_REG: case OP_FD_TRY: snprintf(buf, len, "%s%d.%d", opnm[a->op], a->a, a->b); break;
	case OP_FD_TRYBAD: snprintf(buf, len, "%s%d.%d", opnm[a->op], a->a, a->b); break;
	case OP_FD_SETH: snprintf(buf, len, "%s%d.%c%d", opnm[a->op], a->a, "ioe"[a->b], a->c); break;
	case OP_TM_REG: snprintf(buf, len, "%s%d.%s", opnm[a->op], a->a, tmclass[a->b]); break;
	case OP_SIG_REG: snprintf(buf, len, "%s%d.f%d", opnm[a->op], a->a, a->b); break;
	case OP_LEAVE: case OP_QUIT: case OP_TIMEPASS: case OP_EV_REGFAIL: snprintf(buf, len, "%s", opnm[a->op]); break;
	default: snprintf(buf, len, "%s%d", opnm[a->op], a->a); break;
	}
}

static int model_count(void)
{
	int i, n = 0;
	for (i = 0; i < NFD; i++) n += F[i].reg;
	for (i = 0; i < NTM; i++) n += T[i].reg;
	for (i = 0; i < NTK; i++) n += K[i].reg;
	for (i = 0; i < NEV; i++) n += E[i].reg;
	for (i = 0; i < NRAW; i++) n += RW[i].reg;
	for (i = 0; i < NSIG; i++) n += SG[i].reg;
	for (i = 0; i < NWK; i++) n += (WK[i].submitted && !WK[i].completed);
	return n;
}

static int want_pipe;

static void fd_newsock(struct fdslot *f)
{
	int sv[2];
	/* with nofree=1 (C03's struct-reuse runs) the old descriptor stays open, as a dup()ed or leaked descriptor would */
	if (f->lfd >= 0 && !nofree)
		close(f->lfd);
	if (f->pfd >= 0)
		close(f->pfd);
	f->is_pipe = want_pipe;
	if (want_pipe) {
		/* the only portable source of a bare POLLERR: the write end of a pipe whose reader goes away */
		if (pipe(sv) < 0)
			mc_broken("pipe: %s", strerror(errno));
		f->lfd = sv[1];
		f->pfd = sv[0];
	} else {
		if (socketpair(AF_UNIX, SOCK_STREAM, 0, sv) < 0)
			mc_broken("socketpair: %s", strerror(errno));
		f->lfd = sv[0];
		f->pfd = sv[1];
	}
	f->peer_closed = f->peer_shut = f->fed = f->filled = 0;
}

static int enabled(int op)
{
	return (opmask >> op) & 1;
}

/* build the menu of valid actions; in_cb: called from a callback; stim: at a blocking point */
static int build_menu(struct act *m, int max, int stim)
{
	int n = 0, i, b, v;
#define ADD(o, x, y, z) do { if (n < max) { m[n].op = (o); m[n].a = (x); m[n].b = (y); m[n].c = (z); n++; } } while (0)
	if (!stim && enabled(OP_LEAVE))
		ADD(OP_LEAVE, 0, 0, 0);
	for (i = 0; i < nfd; i++) {
		struct fdslot *f = &F[i];
		if (!stim) {
			if (!f->reg) {
				if (enabled(OP_FD_REG))
					for (b = 0; b < NFDPRESET; b++)
						ADD(OP_FD_REG, i, b, 0);
				if (enabled(OP_FD_TRY))
					for (b = 0; b < NFDPRESET; b++)
						ADD(OP_FD_TRY, i, b, 0);
				if (enabled(OP_FD_TRYBAD))
					for (b = 0; b < 2; b++)
						ADD(OP_FD_TRYBAD, i, b, 0);
			} else {
				if (enabled(OP_FD_UNREG))
					ADD(OP_FD_UNREG, i, 0, 0);
				if (enabled(OP_FD_COOKIE))
					ADD(OP_FD_COOKIE, i, 0, 0);
				if (enabled(OP_FD_SETH))
					for (b = 0; b < 3; b++)
						for (v = 0; v < 3; v++)
							if (f->hv[b] != v)
								ADD(OP_FD_SETH, i, b, v);
			}
		}
		if (f->lfd >= 0) {
			if (enabled(OP_FD_FEED) && !f->is_pipe && !f->peer_closed && !f->peer_shut && f->fed < 3)
				ADD(OP_FD_FEED, i, 0, 0);
			if (!stim && enabled(OP_FD_DRAIN) && f->fed > 0)
				ADD(OP_FD_DRAIN, i, 0, 0);
			if (!stim && enabled(OP_FD_FILL) && !f->filled && !f->peer_closed)
				ADD(OP_FD_FILL, i, 0, 0);
			if (enabled(OP_FD_UNFILL) && f->filled && !f->peer_closed)
				ADD(OP_FD_UNFILL, i, 0, 0);
			if (enabled(OP_FD_PCLOSE) && !f->peer_closed)
				ADD(OP_FD_PCLOSE, i, 0, 0);
			if (enabled(OP_FD_PSHUT) && !f->is_pipe && !f->peer_closed && !f->peer_shut)
				ADD(OP_FD_PSHUT, i, 0, 0);
		}
	}
	if (!stim) {
		for (i = 0; i < ntm; i++) {
			if (!T[i].reg) {
				if (enabled(OP_TM_REG))
					for (b = 0; b < NTMCLASS; b++)
						ADD(OP_TM_REG, i, b, 0);
			} else if (enabled(OP_TM_UNREG)) {
				ADD(OP_TM_UNREG, i, 0, 0);
			}
		}
		for (i = 0; i < ntk; i++) {
			if (!K[i].reg) {
				if (enabled(OP_TK_REG))
					ADD(OP_TK_REG, i, 0, 0);
			} else if (enabled(OP_TK_UNREG)) {
				ADD(OP_TK_UNREG, i, 0, 0);
			}
		}
		for (i = 0; i < nev; i++) {
			if (!E[i].reg) {
				if (enabled(OP_EV_REG))
					ADD(OP_EV_REG, i, 0, 0);
			} else {
				if (enabled(OP_EV_UNREG))
					ADD(OP_EV_UNREG, i, 0, 0);
				if (enabled(OP_EV_POST))
					ADD(OP_EV_POST, i, 0, 0);
			}
		}
		if (enabled(OP_EV_REGFAIL) && fault_emfile) {
			int anyev = 0;
			for (i = 0; i < NEV; i++) anyev += E[i].reg;
			if (!anyev && !E[NEV - 1].reg)
				ADD(OP_EV_REGFAIL, NEV - 1, 0, 0);
		}
		for (i = 0; i < nraw; i++) {
			if (!RW[i].reg) {
				if (enabled(OP_RAW_REG))
					ADD(OP_RAW_REG, i, 0, 0);
			} else {
				if (enabled(OP_RAW_UNREG))
					ADD(OP_RAW_UNREG, i, 0, 0);
				if (enabled(OP_RAW_POST))
					ADD(OP_RAW_POST, i, 0, 0);
			}
		}
		for (i = 0; i < nwk; i++)
			if (enabled(OP_WK_SUBMIT) && !WK[i].submitted)
				ADD(OP_WK_SUBMIT, i, 0, 0);
	}
	for (i = 0; i < nsig; i++) {
		if (!SG[i].reg) {
			if (!stim && enabled(OP_SIG_REG))
				for (b = 0; b < 3; b++)
					ADD(OP_SIG_REG, i, b, 0);
		} else {
			if (!stim && enabled(OP_SIG_UNREG))
				ADD(OP_SIG_UNREG, i, 0, 0);
		}
	}
	{
		int anysig = 0;
		for (i = 0; i < nsig; i++) anysig += SG[i].reg;
		if (anysig && enabled(OP_SIG_RAISE))
			ADD(OP_SIG_RAISE, 0, 0, 0);
	}
	if (!stim && enabled(OP_QUIT) && !quit_req)
		ADD(OP_QUIT, 0, 0, 0);
	if (!stim && enabled(OP_TIMEPASS) && in_main)
		ADD(OP_TIMEPASS, 0, 0, 0);
#undef ADD
	return n;
}

/* ------------------------------------------------------ performing actions */
static void fd_free(struct fdslot *f)
{
	if (!nofree) {
		memset(f->p, 0xbe, sizeof(*f->p));
		free(f->p);
	} else if (!fd_reuse[f - F]) {
		/* struct reuse after unregister: the next registration of this slot lives in the same memory */
		fd_reuse[f - F] = f->p;
		fd_reuse_inited[f - F] = 1;
		if (!fdkeep) {
			/* an application that recycles its objects: the struct is set up for its next use right away (it is the
			 * caller's memory again), and registered whenever the slot is registered next */
			IV_FD_INIT(f->p);
			f->p->fd = f->lfd;
			f->p->cookie = new_cookie(KD_FD, f - F, f->gen + 1);
			f->p->handler_in = fd_handlers[B_IN][1];
			f->p->handler_out = fd_handlers[B_OUT][1];
			f->p->handler_err = fd_handlers[B_ERR][1];
		}
	}
	f->p = NULL;
}

static void fd_do_unreg(struct fdslot *f)
{
	iv_fd_unregister(f->p);
	f->reg = 0;
	f->touched = 1;
	fd_free(f);
	memset(f->hv, 0, sizeof(f->hv));
	memset(f->unserved, 0, sizeof(f->unserved));
}

static void fd_drain(struct fdslot *f)
{
	f->drained_iter = 1;
	char buf[256];
	ssize_t r;
	while ((r = recv(f->lfd, buf, sizeof(buf), MSG_DONTWAIT)) > 0)
		;
	f->fed = 0;
}

static struct timespec tm_expiry(int cls)
{
	struct timespec t = env_now;
	switch (cls) {
	case 0: t.tv_sec = 0; t.tv_nsec = 0; break;
	case 1: t.tv_sec -= 1; break;
	case 2: break;
	case 3: t.tv_nsec += 1; break;
	case 4: t.tv_nsec += 10000000; break;
	case 5: t.tv_sec += 100; break;
	case 12: t.tv_sec += 30L * 86400; break;        /* seeds only: beyond 2^31 ms */
	default: t.tv_nsec += 10000000L * (cls - 4); break;     /* seeds only: +20 ms, +30 ms, ... */
	}
	if (t.tv_nsec >= 1000000000L) { t.tv_sec++; t.tv_nsec -= 1000000000L; }
	return t;
}

static void sig_deliver(void);

static void perform(const struct act *a)
{
	char nm[48];
	act_name(a, nm, sizeof(nm));
	mc_obs("%s", nm);
	switch (a->op) {
	case OP_LEAVE:
		break;
	case OP_FD_REG: case OP_FD_TRY: case OP_FD_TRYBAD: {
		struct fdslot *f = &F[a->a];
		int b, ret = 0, badfd = -1, flags;
		if (f->lfd < 0 || f->peer_closed) {
			want_pipe = (a->op == OP_FD_REG && a->c == 1);
			fd_newsock(f);
			want_pipe = 0;
		}
		int keep = 0;
		if (fd_reuse[a->a]) {
			/* the very struct whose registration failed before is initialised again and re-used */
			f->p = fd_reuse[a->a];
			fd_reuse[a->a] = NULL;
			/* fdkeep=1: a struct that was initialised once, registered and unregistered is registered again as it is
			 * (iv_fd(3) asks for IV_FD_INIT before registration, not before every registration) */
			keep = fdkeep && fd_reuse_inited[a->a];
			fd_reuse_inited[a->a] = 0;
			mc_obs(keep ? "reuse-struct-noinit" : "reuse-struct");
		} else {
			f->p = malloc(sizeof(struct iv_fd));
			memset(f->p, poison, sizeof(struct iv_fd));
		}
		if (!keep)
			IV_FD_INIT(f->p);
		else
			f->p->handler_in = f->p->handler_out = f->p->handler_err = NULL;
		f->gen++;
		f->p->cookie = new_cookie(KD_FD, a->a, f->gen);
		if (a->op == OP_FD_TRYBAD) {
			if (a->b == 0) {
				badfd = dup(f->lfd);
				close(badfd);
			} else {
				badfd = open("/proc/self/exe", O_RDONLY);
			}
			f->p->fd = badfd;
			f->p->handler_in = fd_handlers[B_IN][1];
		} else {
			const int *ps = fdpreset[a->b];
			f->p->fd = f->lfd;
			for (b = 0; b < 3; b++)
				f->hv[b] = ps[b];
			f->p->handler_in = fd_handlers[B_IN][f->hv[B_IN]];
			f->p->handler_out = fd_handlers[B_OUT][f->hv[B_OUT]];
			f->p->handler_err = fd_handlers[B_ERR][f->hv[B_ERR]];
		}
		if (a->op == OP_FD_REG) {
			iv_fd_register(f->p);
		} else {
			int objs_before = iv_get_state()->numobjs;
			int pollslots_before = method_idx >= 2 ? iv_get_state()->u.poll.num_regd_fds : 0;
			in_try = 1;
			ret = iv_fd_register_try(f->p);
			in_try = 0;
			if (a->op == OP_FD_TRYBAD) {
				/* epoll accepts neither a closed fd nor (EPERM) a regular file;
				 * poll() accepts a regular file */
				int expect_fail = (a->b == 0) || method_idx < 2;
				if (a->b == 1)
					close(badfd);
				if (expect_fail && ret == 0)
					FAIL("try-should-fail", "iv_fd_register_try succeeded on a %s", a->b ? "regular file" : "closed descriptor");
				if (ret != 0 && a->b == 0 && reuse_fd < 0) {
					/* the closed descriptor number is taken by an unrelated, permanently readable descriptor at once */
					int pp[2];
					if (pipe(pp) == 0) {
						if (write(pp[1], "r", 1) != 1) {}
						/* pipe() itself usually hands out the just-freed number */
						if (pp[1] == badfd) {
							int t = dup(pp[1]);
							close(pp[1]);
							pp[1] = t;
						}
						if (pp[0] != badfd) {
							reuse_fd = dup2(pp[0], badfd);
							close(pp[0]);
						} else {
							reuse_fd = badfd;
						}
						reuse_wfd = pp[1];
						mc_obs("fdnum-reused");
					}
				}
				if (ret != 0) {
					if (iv_fd_registered(f->p))
						FAIL("failed-register-side-effect", "iv_fd_registered() true after failed iv_fd_register_try");
					if (iv_get_state()->numobjs != objs_before)
						FAIL("failed-register-side-effect", "loop object count changed by a failed iv_fd_register_try");
					if (method_idx >= 2 && iv_get_state()->u.poll.num_regd_fds != pollslots_before)
						FAIL("failed-register-side-effect", "a failed iv_fd_register_try left %d more slot(s) in the poll table",
						     iv_get_state()->u.poll.num_regd_fds - pollslots_before);
					fd_reuse[a->a] = f->p;
					f->p = NULL;
					memset(f->hv, 0, sizeof(f->hv));
					mc_obs("tryfail");
					break;
				}
				/* registered a regular file under poll: valid, treat as always-ready fd: undo */
				iv_fd_unregister(f->p);
				fd_free(f);
				memset(f->hv, 0, sizeof(f->hv));
				break;
			}
			if (ret != 0)
				FAIL("try-failed", "iv_fd_register_try failed on a valid socket");
		}
		f->reg = 1;
		f->touched = 1;
		memset(f->unserved, 0, sizeof(f->unserved));
		f->called_iter[0] = f->called_iter[1] = f->called_iter[2] = -1;
		f->reported = 0;
		flags = fcntl(f->lfd, F_GETFL);
		if (!(flags & O_NONBLOCK))
			FAIL("fd-mode", "registered descriptor not switched to O_NONBLOCK");
		flags = fcntl(f->lfd, F_GETFD);
		if (!(flags & FD_CLOEXEC))
			FAIL("fd-mode", "registered descriptor not switched to FD_CLOEXEC");
		break;
	}
	case OP_FD_UNREG:
		fd_do_unreg(&F[a->a]);
		break;
	case OP_FD_SETH: {
		struct fdslot *f = &F[a->a];
		f->hv[a->b] = a->c;
		f->touched = 1;
		f->unserved[a->b] = 0;
		if (a->b == B_IN) iv_fd_set_handler_in(f->p, fd_handlers[B_IN][a->c]);
		if (a->b == B_OUT) iv_fd_set_handler_out(f->p, fd_handlers[B_OUT][a->c]);
		if (a->b == B_ERR) iv_fd_set_handler_err(f->p, fd_handlers[B_ERR][a->c]);
		break;
	}
	case OP_FD_COOKIE: {
		/* iv_fd(3): the cookie "can be modified directly by the application at any time" */
		struct fdslot *f = &F[a->a];
		f->gen++;
		f->p->cookie = new_cookie(KD_FD, a->a, f->gen);
		break;
	}
	case OP_FD_FEED:
		if (send(F[a->a].pfd, "x", 1, MSG_DONTWAIT | MSG_NOSIGNAL) == 1)
			F[a->a].fed++;
		break;
	case OP_FD_DRAIN:
		fd_drain(&F[a->a]);
		break;
	case OP_FD_FILL: {
		char buf[4096];
		memset(buf, 'f', sizeof(buf));
		if (F[a->a].is_pipe) {
			int fl = fcntl(F[a->a].lfd, F_GETFL);
			fcntl(F[a->a].lfd, F_SETFL, fl | O_NONBLOCK);
			while (write(F[a->a].lfd, buf, sizeof(buf)) > 0)
				;
		}
		while (!F[a->a].is_pipe && send(F[a->a].lfd, buf, sizeof(buf), MSG_DONTWAIT | MSG_NOSIGNAL) > 0)
			;
		F[a->a].filled = 1;
		F[a->a].drained_iter = 1;
		break;
	}
	case OP_FD_UNFILL: {
		char buf[65536];
		if (F[a->a].is_pipe) {
			int fl = fcntl(F[a->a].pfd, F_GETFL);
			fcntl(F[a->a].pfd, F_SETFL, fl | O_NONBLOCK);
			while (read(F[a->a].pfd, buf, sizeof(buf)) > 0)
				;
		}
		while (!F[a->a].is_pipe && recv(F[a->a].pfd, buf, sizeof(buf), MSG_DONTWAIT) > 0)
			;
		F[a->a].filled = 0;
		F[a->a].drained_iter = 1;
		break;
	}
	case OP_FD_PCLOSE:
		close(F[a->a].pfd);
		F[a->a].pfd = -1;
		F[a->a].peer_closed = 1;
		break;
	case OP_FD_PSHUT:
		shutdown(F[a->a].pfd, SHUT_WR);
		F[a->a].peer_shut = 1;
		break;
	case OP_TM_REG: {
		struct tmslot *t = &T[a->a];
		t->p = malloc(sizeof(struct iv_timer));
		memset(t->p, 0xbe, sizeof(struct iv_timer));
		IV_TIMER_INIT(t->p);
		t->gen++;
		t->exp = tm_expiry(a->b);
		t->p->expires = t->exp;
		t->p->cookie = new_cookie(KD_TM, a->a, t->gen);
		t->p->handler = tm_cb;
		iv_timer_register(t->p);
		t->reg = 1;
		t->overdue_polls = 0;
		break;
	}
	case OP_TM_UNREG: {
		struct tmslot *t = &T[a->a];
		iv_timer_unregister(t->p);
		t->reg = 0;
		memset(t->p, 0xbe, sizeof(struct iv_timer));
		free(t->p);
		t->p = NULL;
		break;
	}
	case OP_TK_REG: {
		struct tkslot *k = &K[a->a];
		if (tkkeep && k->p != NULL) {
			/* re-register the very struct that ran before, without re-initialising it */
			mc_obs("same-struct");
		} else {
			k->p = malloc(sizeof(struct iv_task));
			memset(k->p, 0xbe, sizeof(struct iv_task));
			IV_TASK_INIT(k->p);
		}
		k->gen++;
		k->p->cookie = new_cookie(KD_TK, a->a, k->gen);
		k->p->handler = tk_cb;
		iv_task_register(k->p);
		k->reg = 1;
		break;
	}
	case OP_TK_UNREG: {
		struct tkslot *k = &K[a->a];
		iv_task_unregister(k->p);
		k->reg = 0;
		if (!tkkeep) {
			memset(k->p, 0xbe, sizeof(struct iv_task));
			free(k->p);
			k->p = NULL;
		}
		break;
	}
	case OP_EV_REG: case OP_EV_REGFAIL: {
		struct evslot *e = &E[a->a];
		int ret, objs_before = iv_get_state()->numobjs;
		e->p = malloc(sizeof(struct iv_event));
		memset(e->p, 0xbe, sizeof(struct iv_event));
		IV_EVENT_INIT(e->p);
		e->gen++;
		e->p->cookie = new_cookie(KD_EV, a->a, e->gen);
		e->p->handler = ev_cb;
		if (a->op == OP_EV_REGFAIL)
			env_fail_next_evfd_errno = EMFILE;
		ret = iv_event_register(e->p);
		/* under the epoll methods a failed eventfd is replaced by a pipe, so success is legitimate */
		env_fail_next_evfd_errno = 0;
		if (ret != 0) {
			if (a->op == OP_EV_REG)
				FAIL("try-failed", "iv_event_register failed without an injected fault");
			mc_obs("evregfail=%d", ret);
			if (iv_get_state()->numobjs != objs_before)
				FAIL("failed-register-side-effect", "loop object count changed from %d to %d by a failed iv_event_register", objs_before, iv_get_state()->numobjs);
			memset(e->p, 0xbe, sizeof(struct iv_event));
			free(e->p);
			e->p = NULL;
			break;
		}
		e->reg = 1;
		e->pending = 0;
		break;
	}
	case OP_EV_UNREG: {
		struct evslot *e = &E[a->a];
		iv_event_unregister(e->p);
		e->reg = 0;
		e->pending = 0;
		memset(e->p, 0xbe, sizeof(struct iv_event));
		free(e->p);
		e->p = NULL;
		break;
	}
	case OP_EV_POST:
		E[a->a].pending = 1;
		iv_event_post(E[a->a].p);
		break;
	case OP_RAW_REG: {
		struct rawslot *r = &RW[a->a];
		r->p = malloc(sizeof(struct iv_event_raw));
		memset(r->p, 0xbe, sizeof(struct iv_event_raw));
		IV_EVENT_RAW_INIT(r->p);
		r->gen++;
		r->p->cookie = new_cookie(KD_RAW, a->a, r->gen);
		r->p->handler = raw_cb;
		if (iv_event_raw_register(r->p) != 0)
			FAIL("try-failed", "iv_event_raw_register failed");
		r->reg = 1;
		r->pending = 0;
		break;
	}
	case OP_RAW_UNREG: {
		struct rawslot *r = &RW[a->a];
		iv_event_raw_unregister(r->p);
		r->reg = 0;
		r->pending = 0;
		memset(r->p, 0xbe, sizeof(struct iv_event_raw));
		free(r->p);
		r->p = NULL;
		break;
	}
	case OP_RAW_POST:
		RW[a->a].pending = 1;
		iv_event_raw_post(RW[a->a].p);
		break;
	case OP_SIG_REG: {
		struct sigslot *s = &SG[a->a];
		s->p = malloc(sizeof(struct iv_signal));
		memset(s->p, 0xbe, sizeof(struct iv_signal));
		IV_SIGNAL_INIT(s->p);
		s->gen++;
		s->p->signum = SIGUSR1;
		s->flags = a->b == 0 ? 0 : a->b == 1 ? IV_SIGNAL_FLAG_EXCLUSIVE : IV_SIGNAL_FLAG_THIS_THREAD;
		s->p->flags = s->flags;
		s->p->cookie = new_cookie(KD_SIG, a->a, s->gen);
		s->p->handler = sig_cb;
		if (iv_signal_register(s->p) != 0)
			FAIL("try-failed", "iv_signal_register failed");
		s->reg = 1;
		s->pending = 0;
		break;
	}
	case OP_SIG_UNREG: {
		struct sigslot *s = &SG[a->a];
		int i, others = 0;
		iv_signal_unregister(s->p);
		s->reg = 0;
		memset(s->p, 0xbe, sizeof(struct iv_signal));
		free(s->p);
		s->p = NULL;
		/* an exclusive interest's pending delivery is handed to the next one */
		if (s->pending && (s->flags & IV_SIGNAL_FLAG_EXCLUSIVE)) {
			for (i = 0; i < NSIG; i++)
				if (SG[i].reg && !!(SG[i].flags & IV_SIGNAL_FLAG_THIS_THREAD) == !!(s->flags & IV_SIGNAL_FLAG_THIS_THREAD)) {
					/* same wake walk as a delivery restricted to this set */
				}
		}
		s->pending = 0;
		for (i = 0; i < NSIG; i++) others += SG[i].reg;
		if (!others) {
			struct sigaction sa;
			sigaction(SIGUSR1, NULL, &sa);
			if (sa.sa_handler != SIG_DFL)
				FAIL("sig-disposition", "SIGUSR1 disposition not restored to SIG_DFL after the last interest was unregistered");
		}
		break;
	}
	case OP_SIG_RAISE:
		sig_deliver();
		break;
	case OP_QUIT:
		iv_quit();
		quit_req = 1;
		break;
	case OP_TIMEPASS:
		env_advance_ns(5000000);
		iv_invalidate_now();
		break;
	case OP_WK_SUBMIT: {
		struct wkslot *w = &WK[a->a];
		w->p = malloc(sizeof(struct iv_work_item));
		memset(w->p, 0xbe, sizeof(struct iv_work_item));
		IV_WORK_ITEM_INIT(w->p);
		w->gen++;
		w->p->cookie = new_cookie(KD_WK, a->a, w->gen);
		w->p->work = wk_work;
		w->p->completion = wk_done;
		w->submitted = 1;
		w->worked = w->completed = 0;
		iv_work_pool_submit_work(NULL, w->p);
		if (w->worked || w->completed)
			FAIL("work-sync", "with a NULL pool the work function ran synchronously inside the submit call, not later from a task");
		break;
	}
	}
}

/* which interests does a delivery of SIGUSR1 to this thread wake? (reference model of the fan-out) */
static void sig_deliver(void)
{
	int i, thr = 0, woke = 0;
	/* per-thread set first */
	for (i = 0; i < NSIG; i++)
		if (SG[i].reg && (SG[i].flags & IV_SIGNAL_FLAG_THIS_THREAD))
			thr++;
	/* exclusive ones sort first within a set; ties by address are not modelled: at most one exclusive per set is offered */
	for (i = 0; i < NSIG && thr; i++)
		if (SG[i].reg && (SG[i].flags & IV_SIGNAL_FLAG_THIS_THREAD)) {
			SG[i].pending = 1;
			woke++;
		}
	if (!woke) {
		int excl = -1;
		for (i = 0; i < NSIG; i++)
			if (SG[i].reg && !(SG[i].flags & IV_SIGNAL_FLAG_THIS_THREAD) && (SG[i].flags & IV_SIGNAL_FLAG_EXCLUSIVE)) {
				if (excl < 0 || SG[i].p < SG[excl].p)
					excl = i;
			}
		if (excl >= 0) {
			SG[excl].pending = 1;
		} else {
			for (i = 0; i < NSIG; i++)
				if (SG[i].reg && !(SG[i].flags & IV_SIGNAL_FLAG_THIS_THREAD))
					SG[i].pending = 1;
		}
	}
	pthread_kill(pthread_self(), SIGUSR1);
}

/* ------------------------------------------------------------ callbacks */
static struct cookie *cb_enter(void *_ck, int kind, const char *what)
{
	struct cookie *ck = _ck;
	if (ck < cookies || ck >= cookies + ncookies)
		FAIL("cookie", "%s handler called with a cookie that was never handed out (%p)", what, _ck);
	if (ck->kind != kind)
		FAIL("cookie", "%s handler called with the cookie of a %s object", what, kdname[ck->kind]);
	if (!in_main)
		FAIL("callback-outside-main", "%s handler of %s%d invoked outside iv_main", what, kdname[kind], ck->slot);
	if (cb_depth)
		FAIL("nested-callback", "%s handler of %s%d invoked while another callback is running", what, kdname[kind], ck->slot);
	cb_depth++;
	callbacks_since_wait++;
	mc_mark_callback();
	return ck;
}

static void run_actions(const char *where, void (*dflt)(void *), void *arg)
{
	struct act menu[128];
	int n, k, c;
	for (k = 0; k < acts_per_cb; k++) {
		int also = (k > 0 && dflt != NULL);     /* an extra step first, then the handler's usual work after all */
		n = build_menu(menu, 128, 0);
		c = mc_choose(1 + n + also, MC_ACTION, where);
		if (c == 0) {
			if (k == 0 && dflt)
				dflt(arg);
			return;
		}
		if (c == 1 + n) {
			mc_obs("then-usual");
			dflt(arg);
			return;
		}
		perform(&menu[c - 1]);
		if (menu[c - 1].op == OP_LEAVE)
			return;
	}
}

static void cb_leave(void)
{
	cb_depth--;
}

struct fdcb { struct fdslot *f; int band; };

static void fd_default(void *_x)
{
	struct fdcb *x = _x;
	struct fdslot *f = x->f;
	if (!f->reg)
		return;         /* an earlier step of this handler unregistered the descriptor */
	if (script_iter && !script_done && iter >= script_iter) {
		/* scripted application step of this seed (cost 0); skipped when a deviation has made it invalid meanwhile
		 * (e.g. the timer it would unregister is gone already) */
		struct act vm[128];
		unsigned long saved_mask = opmask;
		int vn, vi;
		opmask = ~0UL;          /* validity only; the ops= filter restricts deviations, not the seed's own script */
		vn = build_menu(vm, 128, 0);
		opmask = saved_mask;
		script_done = 1;
		for (vi = 0; vi < vn; vi++)
			if (vm[vi].op == script_act.op && vm[vi].a == script_act.a && vm[vi].b == script_act.b && vm[vi].c == script_act.c)
				break;
		if (vi < vn)
			perform(&script_act);
		else
			mc_obs("script-skipped");
	}
	char buf[256];
	ssize_t r;
	switch (x->band) {
	case B_IN:
		f->drained_iter = 1;
		/* typical reader: consume; on EOF / error drop the descriptor */
		for (;;) {
			r = recv(f->lfd, buf, sizeof(buf), MSG_DONTWAIT);
			if (r > 0)
				continue;
			if (r == 0 || (errno != EAGAIN && errno != EINTR)) {
				mc_obs("eof-unreg");
				fd_do_unreg(f);
			}
			break;
		}
		f->fed = 0;
		break;
	case B_OUT:
		mc_obs("out-done");
		f->hv[B_OUT] = 0;
		f->touched = 1;
		iv_fd_set_handler_out(f->p, NULL);
		break;
	case B_ERR:
		mc_obs("err-unreg");
		fd_do_unreg(f);
		break;
	}
}

static void fd_cb(void *_ck, int band, int variant)
{
	static const char *lbl[3] = { "cb-fd-in", "cb-fd-out", "cb-fd-err" };
	struct cookie *ck = cb_enter(_ck, KD_FD, lbl[band]);
	struct fdslot *f = &F[ck->slot];
	struct fdcb x = { f, band };
	static const int need[3] = { MASKIN, MASKOUT, MASKERR };

	mc_obs("%s%d", lbl[band], ck->slot);
	if (!f->reg || ck->gen != f->gen)
		FAIL("stale-callback", "%s handler of fd%d (generation %d) invoked although %s", lbl[band], ck->slot, ck->gen,
		     f->reg ? "that registration was replaced" : "the descriptor is not registered");
	if (f->hv[band] == 0)
		FAIL("fd-cleared-handler", "%s handler of fd%d invoked although the handler for that band is NULL", lbl[band], ck->slot);
	if (f->hv[band] != variant)
		FAIL("fd-wrong-handler", "fd%d band %d invoked through handler variant %d, installed is %d", ck->slot, band, variant, f->hv[band]);
	if (!(f->reported & need[band]))
		FAIL("fd-spurious", "%s handler of fd%d invoked but the preceding kernel poll did not report that band (reported mask %d)", lbl[band], ck->slot, f->reported);
	if (!f->touched && !f->drained_iter) {
		/* nothing touched this descriptor since the poll: the kernel condition itself must still hold */
		int truth = fd_truth(f);
		if (!(truth & need[band]))
			FAIL("fd-spurious", "%s handler of fd%d invoked although the kernel condition for that band does not hold on this descriptor (poll(2) says mask %d)", lbl[band], ck->slot, truth);
	}
	if (f->called_iter[band] == iter)
		FAIL("fd-twice", "%s handler of fd%d invoked twice in one loop iteration", lbl[band], ck->slot);
	f->called_iter[band] = iter;
	f->unserved[band] = 0;
	run_actions(lbl[band], fd_default, &x);
	cb_leave();
}

#define FDH(b, v) static void fdh_##b##_##v(void *ck) { fd_cb(ck, b, v); }
FDH(0, 1) FDH(0, 2) FDH(1, 1) FDH(1, 2) FDH(2, 1) FDH(2, 2)
static void (*fd_handlers[3][3])(void *) = {
	{ NULL, fdh_0_1, fdh_0_2 }, { NULL, fdh_1_1, fdh_1_2 }, { NULL, fdh_2_1, fdh_2_2 } };

static void tm_cb(void *_ck)
{
	struct cookie *ck = cb_enter(_ck, KD_TM, "cb-tm");
	struct tmslot *t = &T[ck->slot];
	mc_obs("cb-tm%d", ck->slot);
	if (!t->reg || ck->gen != t->gen)
		FAIL(t->fired_gen == ck->gen ? "timer-twice" : "stale-callback", "timer %d (generation %d) fired although %s", ck->slot, ck->gen,
		     t->fired_gen == ck->gen ? "it already fired" : "it was unregistered");
	if (env_ts_cmp(&env_now, &t->exp) < 0)
		FAIL("timer-early", "timer %d fired %lld ns before its expiry", ck->slot, env_ts_diff_ns(&t->exp, &env_now));
	if (iv_timer_registered(t->p))
		FAIL("oneshot-registered", "timer %d still reported registered on entry to its handler", ck->slot);
	t->reg = 0;
	t->fired_gen = ck->gen;
	memset(t->p, 0xbe, sizeof(struct iv_timer));
	free(t->p);
	t->p = NULL;
	run_actions("cb-tm", NULL, NULL);
	cb_leave();
}

static int tasks_ran_since_wait[NTK];

static void tk_cb(void *_ck)
{
	struct cookie *ck = cb_enter(_ck, KD_TK, "cb-tk");
	struct tkslot *k = &K[ck->slot];
	mc_obs("cb-tk%d", ck->slot);
	if (!k->reg || ck->gen != k->gen)
		FAIL("stale-callback", "task %d (generation %d) ran although it was unregistered or already ran", ck->slot, ck->gen);
	if (iv_task_registered(k->p))
		FAIL("oneshot-registered", "task %d still reported registered on entry to its handler", ck->slot);
	if (tasks_ran_since_wait[ck->slot]) {
		/* the same observation from the point of view of what is kept waiting by the task chain */
		int j;
		for (j = 0; j < NRAW; j++)
			if (RW[j].reg && RW[j].pending)
				FAIL("raw-starved", "task slot %d runs again without a kernel poll in between while a post to raw event %d is waiting", ck->slot, j);
	}
	if (tasks_ran_since_wait[ck->slot])
		FAIL("task-same-round", "task slot %d ran twice without a kernel poll in between (re-registration by a task that already ran must be deferred)", ck->slot);
	tasks_ran_since_wait[ck->slot] = 1;
	k->reg = 0;
	if (!tkkeep) {
		memset(k->p, 0xbe, sizeof(struct iv_task));
		free(k->p);
		k->p = NULL;
	}
	if (ck->slot == 0 && autotask_left > 0) {
		/* scripted application (cost 0): a task that keeps re-registering itself */
		struct act a = { OP_TK_REG, 0, 0, 0 };
		autotask_left--;
		perform(&a);
		cb_leave();
		return;
	}
	run_actions("cb-tk", NULL, NULL);
	cb_leave();
}

static void ev_cb(void *_ck)
{
	struct cookie *ck = cb_enter(_ck, KD_EV, "cb-ev");
	struct evslot *e = &E[ck->slot];
	mc_obs("cb-ev%d", ck->slot);
	if (!e->reg || ck->gen != e->gen)
		FAIL("stale-callback", "event %d (generation %d) handler ran although it was unregistered", ck->slot, ck->gen);
	if (!e->pending)
		FAIL("event-over", "event %d handler ran more often than it was posted", ck->slot);
	e->pending = 0;
	run_actions("cb-ev", NULL, NULL);
	cb_leave();
}

static void raw_cb(void *_ck)
{
	struct cookie *ck = cb_enter(_ck, KD_RAW, "cb-raw");
	struct rawslot *r = &RW[ck->slot];
	mc_obs("cb-raw%d", ck->slot);
	if (!r->reg || ck->gen != r->gen)
		FAIL("stale-callback", "raw event %d (generation %d) handler ran although it was unregistered", ck->slot, ck->gen);
	if (!r->pending)
		FAIL("raw-over", "raw event %d handler ran without a post", ck->slot);
	r->pending = 0;
	r->called_iter = iter;
	run_actions("cb-raw", NULL, NULL);
	cb_leave();
}

static void sig_cb(void *_ck)
{
	struct cookie *ck = cb_enter(_ck, KD_SIG, "cb-sig");
	struct sigslot *s = &SG[ck->slot];
	mc_obs("cb-sig%d", ck->slot);
	if (!s->reg || ck->gen != s->gen)
		FAIL("stale-callback", "signal interest %d (generation %d) handler ran although it was unregistered", ck->slot, ck->gen);
	if (!s->pending)
		FAIL("sig-over", "signal interest %d handler ran without a delivery", ck->slot);
	s->pending = 0;
	run_actions("cb-sig", NULL, NULL);
	cb_leave();
}

static void wk_work(void *_ck)
{
	struct cookie *ck = cb_enter(_ck, KD_WK, "cb-work");
	struct wkslot *w = &WK[ck->slot];
	mc_obs("cb-work%d", ck->slot);
	if (!w->submitted || w->worked || ck->gen != w->gen)
		FAIL("work-twice", "work function of item %d ran %s", ck->slot, w->worked ? "twice" : "without submission");
	w->worked = 1;
	cb_leave();
}

static void wk_done(void *_ck)
{
	struct cookie *ck = cb_enter(_ck, KD_WK, "cb-done");
	struct wkslot *w = &WK[ck->slot];
	mc_obs("cb-done%d", ck->slot);
	if (!w->worked || w->completed || ck->gen != w->gen)
		FAIL("work-twice", "completion of item %d ran %s", ck->slot, w->completed ? "twice" : "before its work function");
	w->completed = 1;
	w->submitted = 0;
	memset(w->p, 0xbe, sizeof(struct iv_work_item));
	free(w->p);
	w->p = NULL;
	run_actions("cb-done", NULL, NULL);
	cb_leave();
}

/* ------------------------------------------------------- wait oracles */
static int autofeed_left;

static int ms_ceil_sleep_ok(const struct timespec *until, const struct timespec *exp)
{
	/* may sleep until `until` although a timer expires at exp?  yes iff
	 * until <= now + ceil_ms(exp - now) */
	long long d = env_ts_diff_ns(exp, &env_now);
	long long u = env_ts_diff_ns(until, &env_now);
	if (d <= 0)
		return 0;
	d = ((d + 999999) / 1000000) * 1000000;
	return u <= d;
}

static int fd_truth(struct fdslot *f)
{
	struct pollfd p = { f->lfd, POLLIN | POLLOUT, 0 };
	int m = 0;
	if (poll(&p, 1, 0) < 0)
		mc_broken("ground-truth poll: %s", strerror(errno));
	if (p.revents & (POLLIN | POLLERR | POLLHUP)) m |= MASKIN;
	if (p.revents & (POLLOUT | POLLERR | POLLHUP)) m |= MASKOUT;
	if (p.revents & (POLLERR | POLLHUP)) m |= MASKERR;
	return m;
}

static uint64_t canon_hash(struct env_wait *w);

static void wait_entry(struct env_wait *w)
{
	int i, b;
	static const int bm[3] = { MASKIN, MASKOUT, MASKERR };

	if (in_try)
		return;
	if (!in_main)
		FAIL("wait-outside-main", "kernel wait entered outside iv_main");
	iter++;
	if (quit_req)
		FAIL("main-should-return", "loop polls again although iv_quit was called");
	if (model_count() == 0) {
		/* a residual internal task (e.g. the local event runner of an event that was
		 * unregistered meanwhile) may cost extra non-blocking polls; anything more is a failure to return */
		if (w->timeout_ns != 0 || ++empty_polls > 2)
			FAIL("main-should-return", "loop keeps polling (%s) although nothing is registered any more",
			     w->timeout_ns != 0 ? "with a non-zero timeout" : "repeatedly");
	} else {
		empty_polls = 0;
	}
	if (env_ts_cmp(&env_now, &last_wait_time) == 0 && !callbacks_since_wait && !eintr_since_wait && iter > 1) {
		if (++zero_progress_waits > 8)
			FAIL("spin", "%d consecutive wake-ups without any callback, elapsed time or interrupted wait", zero_progress_waits);
	} else {
		zero_progress_waits = 0;
	}
	/* the horizon does not cut a run of empty wake-ups short: it either ends by itself or becomes a spin */
	if (iter > horizon && zero_progress_waits < 2)
		mc_done();
	if (iter > horizon + 10)
		mc_done();
	last_wait_time = env_now;
	callbacks_since_wait = 0;
	prev_wait_eintr = eintr_since_wait;
	eintr_since_wait = 0;
	memset(tasks_ran_since_wait, 0, sizeof(tasks_ran_since_wait));

	for (i = 0; i < NRAW; i++) {
		/* the same for raw events: the kernel reported the object's descriptor readable, the object stayed registered */
		if (RW[i].reg && RW[i].reported_gen == RW[i].gen && iter > 1 && RW[i].called_iter != iter - 1)
			FAIL("raw-skipped", "raw event %d: the kernel reported its descriptor readable at the last poll and it stayed registered, "
			     "but its handler was not invoked in that iteration", i);
		RW[i].reported_gen = 0;
	}
	for (i = 0; i < NFD; i++) {
		struct fdslot *f = &F[i];
		int truth;
		/* a band the kernel reported at the last poll, whose handler was set all along on a descriptor that stayed
		 * registered, must have been dispatched in that very iteration */
		if (f->reg && !f->touched && iter > 1 && !prev_wait_eintr_for_skip)
			for (b = 0; b < 3; b++)
				if ((f->reported & bm[b]) && f->hv[b] && f->called_iter[b] != iter - 1)
					FAIL("fd-skipped", "fd%d: the kernel reported band %d at the last poll, its handler was set and the descriptor stayed registered, "
					     "but the handler was not invoked in that iteration", i, b);
		f->reported = 0;
		f->touched = 0;
		f->drained_iter = 0;
		if (!f->reg)
			continue;
		truth = fd_truth(f);
		for (b = 0; b < 3; b++) {
			if (f->hv[b] && (truth & bm[b])) {
				/* a wait that was interrupted delivered nothing: it does not count as a missed opportunity */
				if (prev_wait_eintr && f->unserved[b] > 0)
					continue;
				if (++f->unserved[b] > 3)
					FAIL("fd-starved", "fd%d band %d has had a handler and a true kernel condition at %d consecutive polls without being invoked", i, b, f->unserved[b]);
			} else {
				f->unserved[b] = 0;
			}
		}
	}
	for (i = 0; i < NTM; i++) {
		/* a timer that was already due at the previous poll must have been run by now */
		if (T[i].reg && T[i].overdue_polls && env_ts_cmp(&T[i].exp, &env_now) <= 0) {
			if (!prev_wait_eintr && ++T[i].overdue_polls > 3)
				FAIL("timer-starved", "timer %d has been due for %d polls and still has not run (tasks / descriptors keep the loop busy)", i, T[i].overdue_polls - 1);
		} else if (T[i].reg && env_ts_cmp(&T[i].exp, &env_now) <= 0) {
			T[i].overdue_polls = 1;
		} else {
			T[i].overdue_polls = 0;
		}
	}
	mc_obs("w%s", w->timeout_ns < 0 ? "inf" : w->timeout_ns == 0 ? "0" : "t");
	if (use_hash)
		mc_state(canon_hash(w));
}

static void wait_ret(struct env_wait *w, int n)
{
	int i, j;
	if (in_try)
		return;
	if (n < 0) {
		mc_obs("r-eintr");
		return;
	}
	for (i = 0; i < (w->is_epoll ? n : w->nfds); i++) {
		unsigned ev;
		int m = 0;
		if (w->is_epoll) {
			ev = w->ev[i].events;
		} else {
			ev = w->pfds[i].revents;
			if (!ev)
				continue;
		}
		if (ev & (EPOLLIN | EPOLLERR | EPOLLHUP)) m |= MASKIN;
		if (ev & (EPOLLOUT | EPOLLERR | EPOLLHUP)) m |= MASKOUT;
		if (ev & (EPOLLERR | EPOLLHUP)) m |= MASKERR;
		for (j = 0; j < NFD; j++) {
			if (!F[j].reg)
				continue;
			if (w->is_epoll ? (w->ev[i].data.ptr == (void *)F[j].p) : (w->pfds[i].fd == F[j].lfd))
				F[j].reported |= m;
		}
		for (j = 0; j < NRAW; j++) {
			if (!RW[j].reg || !(m & MASKIN))
				continue;
			if (w->is_epoll ? (w->ev[i].data.ptr == (void *)&RW[j].p->event_rfd) : (w->pfds[i].fd == RW[j].p->event_rfd.fd))
				RW[j].reported_gen = RW[j].gen;
		}
	}
	mc_obs("r%d", n);
	if (drift_ns) {
		/* wall-clock time passes while the loop runs, also when it never sleeps; the library re-reads
		 * the clock after every poll, so this needs no iv_invalidate_now() from the application */
		env_advance_ns(drift_ns);
	}
}

static void end_checks(const char *why)
{
	int i;
	for (i = 0; i < NEV; i++)
		if (E[i].reg && E[i].pending)
			FAIL("event-lost", "%s with a post to event %d undelivered", why, i);
	for (i = 0; i < NRAW; i++)
		if (RW[i].reg && RW[i].pending)
			FAIL("raw-lost", "%s with a post to raw event %d undelivered", why, i);
	for (i = 0; i < NSIG; i++)
		if (SG[i].reg && SG[i].pending)
			FAIL("sig-lost", "%s with a delivery for signal interest %d unhandled", why, i);
	for (i = 0; i < NWK; i++)
		if (WK[i].submitted && !WK[i].completed)
			FAIL("work-lost", "%s with work item %d not completed", why, i);
}

static int would_block(struct env_wait *w)
{
	struct act menu[64];
	int i, b, n, c, can_timeout, extra;
	struct timespec until;
	static const int bm[3] = { MASKIN, MASKOUT, MASKERR };

	if (in_try)
		mc_broken("blocking poll inside iv_fd_register_try");
	can_timeout = w->timeout_ns >= 0 || w->has_timerfd_deadline;
	if (can_timeout) {
		until = w->timeout_ns >= 0 ? w->deadline : w->timerfd_deadline;
		if (w->has_timerfd_deadline && env_ts_cmp(&w->timerfd_deadline, &until) < 0)
			until = w->timerfd_deadline;
	}
	/* the loop is about to sleep: nothing may be due */
	for (i = 0; i < NTK; i++)
		if (K[i].reg)
			FAIL("sleep-with-task", "loop blocks in the kernel (timeout %lld ns) while task %d is registered", w->timeout_ns, i);
	end_checks("loop blocks in the kernel");
	for (i = 0; i < NFD; i++) {
		int truth;
		if (!F[i].reg)
			continue;
		truth = fd_truth(&F[i]);
		for (b = 0; b < 3; b++)
			if (F[i].hv[b] && (truth & bm[b]))
				FAIL("fd-sleep", "loop goes to sleep although fd%d has a handler for band %d and the kernel condition holds (registered interest lost)", i, b);
	}
	for (i = 0; i < NTM; i++) {
		if (!T[i].reg)
			continue;
		if (!can_timeout)
			FAIL("oversleep", "loop blocks without timeout while timer %d is registered", i);
		if (!ms_ceil_sleep_ok(&until, &T[i].exp))
			FAIL("oversleep", "loop sleeps for %lld ns but timer %d expires in %lld ns", env_ts_diff_ns(&until, &env_now), i, env_ts_diff_ns(&T[i].exp, &env_now));
	}

	if (autofeed_left > 0 && F[0].reg && F[0].lfd >= 0 && !F[0].peer_closed) {
		/* scripted environment (cost 0): the peer of fd0 keeps talking */
		autofeed_left--;
		if (send(F[0].pfd, "a", 1, MSG_DONTWAIT | MSG_NOSIGNAL) == 1)
			F[0].fed++;
		mc_obs("autofeed");
		return ENV_WB_REPOLL;
	}

	n = build_menu(menu, 64, 1);
	extra = fault_eintr_wait ? 2 : 0;
	c = mc_choose(1 + n + extra, MC_STIM, can_timeout ? "block-t" : "block-inf");
	if (c == 0) {
		if (can_timeout) {
			mc_obs("sleep");
			return ENV_WB_TIMEOUT;
		}
		mc_obs("world-stops");
		end_checks("world stops");
		mc_done();
	}
	if (c == 1 + n) {
		mc_obs("eintr");
		eintr_since_wait = 1;
		return ENV_WB_EINTR;
	}
	if (c == 2 + n) {
		/* interrupted after part of the sleep has elapsed */
		long long half = can_timeout ? env_ts_diff_ns(&until, &env_now) / 2 : 1000000;
		if (half < 1)
			half = 1;
		env_advance_ns(half);
		mc_obs("eintr-late");
		eintr_since_wait = 1;
		return ENV_WB_EINTR;
	}
	perform(&menu[c - 1]);
	return ENV_WB_REPOLL;
}

static int wait_fault(struct env_wait *w)
{
	(void)w;
	if (in_try || !fault_eintr_wait)
		return 0;
	if (mc_choose(2, MC_FAULT, "wait-eintr")) {
		mc_obs("eintr-early");
		eintr_since_wait = 1;
		return 1;
	}
	return 0;
}

static int io_eintr(const char *what, int fd)
{
	int k = env_fd_kind(fd);
	if (!fault_eintr_io || !in_main)
		return 0;
	/* only where an interrupted call is a real possibility and the caller is specified to retry: epoll_ctl, and
	 * reads/writes of the raw-event descriptors (a non-blocking timerfd read or eventfd write never returns EINTR) */
	if (!strcmp(what, "read") && k != ENV_FD_EVENTFD && k != ENV_FD_PIPE_R)
		return 0;
	if (!strcmp(what, "write") && k != ENV_FD_PIPE_W)
		return 0;
	if (!strcmp(what, "splice"))
		return 0;
	return mc_choose(2, MC_FAULT, what);
}

static int sc_fault(int sc)
{
	static const int en[ENV_NSC] = { ENOSYS, ENOSYS, ENOSYS, ENOSYS, ENOSYS, ENOSYS, ENOSYS, ENOSYS, 0, 0 };
	int c;
	if (!fault_sc || !en[sc])
		return 0;
	if (sc == ENV_SC_EPOLL_PWAIT2) {
		c = mc_choose(3, MC_FAULT, "sc-pwait2");
		return c == 1 ? ENOSYS : c == 2 ? EPERM : 0;
	}
	return mc_choose(2, MC_FAULT, "sc-fault") ? ENOSYS : 0;
}

static uint64_t canon_hash(struct env_wait *w)
{
	(void)w;
	return 0;   /* state hashing not enabled in this harness yet */
}

/* ---------------------------------------------------------------- seeds */
struct seed { const char *name; int autofeed; struct act a[10]; int script_iter; struct act script; };
#define A(o, x, y, z) { o, x, y, z }
#define END { -1, 0, 0, 0 }
static const struct seed seeds[] = {
	/* 0 */ { "empty", 0, { END } },
	/* 1 */ { "fd0-in-fed", 0, { A(OP_FD_REG, 0, 0, 0), A(OP_FD_FEED, 0, 0, 0), END } },
	/* 2 */ { "fd0,fd1-in-fed", 0, { A(OP_FD_REG, 0, 0, 0), A(OP_FD_REG, 1, 0, 0), A(OP_FD_FEED, 0, 0, 0), A(OP_FD_FEED, 1, 0, 0), END } },
	/* 3 */ { "fd0-all-hup", 0, { A(OP_FD_REG, 0, 2, 0), A(OP_FD_PCLOSE, 0, 0, 0), END } },
	/* 4 */ { "fd0-nohandler-fed", 0, { A(OP_FD_REG, 0, 1, 0), A(OP_FD_FEED, 0, 0, 0), END } },
	/* 5 */ { "fd0-out", 0, { A(OP_FD_REG, 0, 3, 0), END } },
	/* 6 */ { "fd0-in-fed,timer+10ms,task", 0, { A(OP_FD_REG, 0, 0, 0), A(OP_FD_FEED, 0, 0, 0), A(OP_TM_REG, 0, 4, 0), A(OP_TK_REG, 0, 0, 0), END } },
	/* 7 */ { "timers-equal,far", 0, { A(OP_TM_REG, 0, 4, 0), A(OP_TM_REG, 1, 4, 0), A(OP_TM_REG, 2, 5, 0), END } },
	/* 8 */ { "timers-zero,past,now", 0, { A(OP_TM_REG, 0, 0, 0), A(OP_TM_REG, 1, 1, 0), A(OP_TM_REG, 2, 2, 0), END } },
	/* 9 */ { "tasks01", 0, { A(OP_TK_REG, 0, 0, 0), A(OP_TK_REG, 1, 0, 0), END } },
	/* 10 */ { "event-posted,task", 0, { A(OP_EV_REG, 0, 0, 0), A(OP_EV_POST, 0, 0, 0), A(OP_TK_REG, 0, 0, 0), END } },
	/* 11 */ { "all-due-at-once", 0, { A(OP_FD_REG, 0, 0, 0), A(OP_FD_FEED, 0, 0, 0), A(OP_FD_REG, 1, 2, 0), A(OP_FD_PCLOSE, 1, 0, 0),
				    A(OP_TM_REG, 0, 2, 0), A(OP_TK_REG, 0, 0, 0), A(OP_EV_REG, 0, 0, 0), A(OP_EV_POST, 0, 0, 0), END } },
	/* 12 */ { "raw,sig-posted", 0, { A(OP_RAW_REG, 0, 0, 0), A(OP_RAW_POST, 0, 0, 0), A(OP_SIG_REG, 0, 0, 0), A(OP_SIG_RAISE, 0, 0, 0), END } },
	/* 13 */ { "fd0-in-idle,timer+10ms", 0, { A(OP_FD_REG, 0, 0, 0), A(OP_TM_REG, 0, 4, 0), END } },
	/* 14 */ { "fd0-err-only", 0, { A(OP_FD_REG, 0, 4, 0), END } },
	/* 15 */ { "fd0-out,fd1-in,fd2-in", 0, { A(OP_FD_REG, 0, 3, 0), A(OP_FD_REG, 1, 0, 0), A(OP_FD_REG, 2, 0, 0), END } },
	/* 16 */ { "chatty-fd0,timer+10ms", 5, { A(OP_FD_REG, 0, 0, 0), A(OP_FD_FEED, 0, 0, 0), A(OP_TM_REG, 0, 4, 0), END } },
	/* 17 */ { "chatty-fd0,timer-far,timer+10ms", 6, { A(OP_FD_REG, 0, 0, 0), A(OP_FD_FEED, 0, 0, 0), A(OP_TM_REG, 0, 5, 0), END } },
	/* 18 */ { "chatty-fd0,timer-zero", 5, { A(OP_FD_REG, 0, 0, 0), A(OP_FD_FEED, 0, 0, 0), A(OP_TM_REG, 0, 0, 0), A(OP_TK_REG, 0, 0, 0), END } },
	/* 19 */ { "fd0-in,fd1-in-registered-idle", 0, { A(OP_FD_REG, 0, 0, 0), A(OP_FD_REG, 1, 0, 0), END } },
	/* 20 */ { "event-registered,fd0-idle", 0, { A(OP_EV_REG, 0, 0, 0), A(OP_FD_REG, 0, 0, 0), END } },
	/* 21 */ { "work-local", 0, { A(OP_WK_SUBMIT, 0, 0, 0), A(OP_TK_REG, 0, 0, 0), END } },
	/* 22 */ { "fd0-in+err-fed,fd1-out-filled", 0, { A(OP_FD_REG, 0, 0, 0), A(OP_FD_SETH, 0, B_ERR, 1), A(OP_FD_FEED, 0, 0, 0), A(OP_FD_REG, 1, 3, 0), A(OP_FD_FILL, 1, 0, 0), END } },
	/* 23 */ { "sig-excl,raw", 0, { A(OP_SIG_REG, 0, 1, 0), A(OP_RAW_REG, 0, 0, 0), END } },
	/* 24 */ { "fd0-in-fed,fd1-in-fed,fd2-in-fed", 0, { A(OP_FD_REG, 0, 0, 0), A(OP_FD_REG, 1, 0, 0), A(OP_FD_REG, 2, 0, 0), A(OP_FD_FEED, 0, 0, 0), A(OP_FD_FEED, 1, 0, 0), A(OP_FD_FEED, 2, 0, 0), END } },
	/* 25 */ { "seven-timers", 0, { A(OP_TM_REG, 0, 4, 0), A(OP_TM_REG, 1, 9, 0), A(OP_TM_REG, 2, 6, 0), A(OP_TM_REG, 3, 10, 0), A(OP_TM_REG, 4, 11, 0),
				  A(OP_TM_REG, 5, 5, 0), A(OP_TM_REG, 6, 7, 0), END } },
	/* 26 */ { "fd0-err-only,fd1-in-idle", 0, { A(OP_FD_REG, 0, 4, 0), A(OP_FD_REG, 1, 0, 0), END } },
	/* 27 */ { "task-chain,timer+10ms,fd0-idle", 0, { A(OP_TK_REG, 0, 0, 0), A(OP_TM_REG, 0, 4, 0), A(OP_FD_REG, 0, 0, 0), END } },
	/* 28 */ { "fd0-err-only,fd1-in-fed", 0, { A(OP_FD_REG, 0, 4, 0), A(OP_FD_REG, 1, 0, 0), A(OP_FD_FEED, 1, 0, 0), END } },
	/* 29 */ { "fd0-err-only-hup,fd1-in-idle", 0, { A(OP_FD_REG, 0, 4, 0), A(OP_FD_REG, 1, 0, 0), A(OP_FD_PCLOSE, 0, 0, 0), END } },
	/* 30 */ { "chatty-fd0,timer+10ms-unregistered-at-iteration-7", 8, { A(OP_FD_REG, 0, 0, 0), A(OP_FD_FEED, 0, 0, 0), A(OP_TM_REG, 0, 4, 0), END }, 7, A(OP_TM_UNREG, 0, 0, 0) },
	/* 31 */ { "two-events-posted,fd0-idle", 0, { A(OP_EV_REG, 0, 0, 0), A(OP_EV_REG, 1, 0, 0), A(OP_EV_POST, 0, 0, 0), A(OP_EV_POST, 1, 0, 0), A(OP_FD_REG, 0, 0, 0), END } },
	/* 32 */ { "pipe-w-err-only,pipe-w-in-only,reader-of-fd0-gone", 0, { A(OP_FD_REG, 0, 4, 1), A(OP_FD_REG, 1, 0, 1), A(OP_FD_PCLOSE, 0, 0, 0), END } },
	/* 33 */ { "pipe-w-in-only,fd1-in-idle,reader-gone", 0, { A(OP_FD_REG, 0, 0, 1), A(OP_FD_REG, 1, 0, 0), A(OP_FD_PCLOSE, 0, 0, 0), END } },
	/* 34 */ { "raw0,raw1-posted,fd0-idle", 0, { A(OP_RAW_REG, 0, 0, 0), A(OP_RAW_REG, 1, 0, 0), A(OP_RAW_POST, 0, 0, 0), A(OP_RAW_POST, 1, 0, 0), A(OP_FD_REG, 0, 0, 0), END } },
	/* 35 */ { "fd0-all-fed,raw0-posted,fd1-in-fed", 0, { A(OP_FD_REG, 0, 2, 0), A(OP_FD_FEED, 0, 0, 0), A(OP_RAW_REG, 0, 0, 0), A(OP_RAW_POST, 0, 0, 0), A(OP_FD_REG, 1, 0, 0), A(OP_FD_FEED, 1, 0, 0), END } },
	/* 36 */ { "chatty-fd0(12),timer+10ms,task-registered-at-iteration-7", 12, { A(OP_FD_REG, 0, 0, 0), A(OP_FD_FEED, 0, 0, 0), A(OP_TM_REG, 0, 4, 0), END }, 7, A(OP_TK_REG, 0, 0, 0) },
	/* 37 */ { "chatty-fd0(9),timer-far,two-events-registered,task-at-iteration-9", 9, { A(OP_FD_REG, 0, 0, 0), A(OP_FD_FEED, 0, 0, 0), A(OP_TM_REG, 0, 5, 0), A(OP_EV_REG, 0, 0, 0), A(OP_EV_REG, 1, 0, 0), END }, 9, A(OP_TK_REG, 0, 0, 0) },
	/* 38 */ { "timer+30d,fd0-idle", 0, { A(OP_TM_REG, 0, 12, 0), A(OP_FD_REG, 0, 0, 0), END } },
};
#define NSEEDS ((int)(sizeof(seeds) / sizeof(seeds[0])))

static const char *method_excl[4] = { "", "epoll-timerfd", "epoll-timerfd epoll", "epoll-timerfd epoll ppoll" };
static const char *method_name[4] = { "epoll-timerfd", "epoll", "ppoll", "poll" };

static int parse_list(const char *s, int *out, int max)
{
	int n = 0;
	while (*s && n < max) {
		char *e;
		long a = strtol(s, &e, 10), b;
		if (e == s)
			break;
		b = a;
		if (*e == '-')
			b = strtol(e + 1, &e, 10);
		for (; a <= b && n < max; a++)
			out[n++] = a;
		s = e;
		if (*s == ',')
			s++;
	}
	return n;
}

static void parse_ops(const char *s)
{
	/* ops=name,name,... enables only those action classes (plus leave) */
	int i;
	if (!s || !strcmp(s, "all"))
		return;
	opmask = 0;
	for (i = 0; i < NOP; i++) {
		const char *p = s;
		size_t l = strlen(opnm[i]);
		while ((p = strstr(p, opnm[i])) != NULL) {
			if ((p == s || p[-1] == ',') && (p[l] == 0 || p[l] == ','))
				opmask |= 1UL << i;
			p += l;
		}
	}
}

static void exec_one(void)
{
	int methods[4], nm, seedl[64], ns, i, c, si;
	long allocs0;
	struct act menu[128];
	const struct seed *sd;

	env_init();
	env_wait_ops.entry = wait_entry;
	env_wait_ops.would_block = would_block;
	env_wait_ops.ret = wait_ret;
	env_wait_ops.fault_eintr = wait_fault;
	env_eintr_hook = io_eintr;
	env_sc_fault_hook = sc_fault;

	nfd = mc_arg_int("nfd", 2); ntm = mc_arg_int("ntm", 2); ntk = mc_arg_int("ntk", 2);
	nev = mc_arg_int("nev", 1); nraw = mc_arg_int("nraw", 0); nsig = mc_arg_int("nsig", 0); nwk = mc_arg_int("nwk", 0);
	acts_per_cb = mc_arg_int("acts", 2);
	setup_acts = mc_arg_int("setup", 2);
	horizon = mc_arg_int("horizon", 10);
	fault_eintr_wait = mc_arg_int("eintr_wait", 0);
	fault_eintr_io = mc_arg_int("eintr_io", 0);
	fault_emfile = mc_arg_int("emfile", 0);
	fault_sc = mc_arg_int("sc_fault", 0);
	use_hash = mc_arg_int("hash", 0);
	drift_ns = mc_arg_int("drift_ns", 0);
	nofree = mc_arg_int("nofree", 0);
	tkkeep = mc_arg_int("tkkeep", 0);
	fdkeep = mc_arg_int("fdkeep", 0);
	rules = mc_arg("rules", "all");
	parse_ops(mc_arg("ops", "all"));
	nm = parse_list(mc_arg("methods", "0-3"), methods, 4);
	ns = parse_list(mc_arg("seeds", "0"), seedl, 64);
	/* optional syscalls absent from the first call: absent=<sc index list> */
	{
		int ab[ENV_NSC], na = parse_list(mc_arg("absent", ""), ab, ENV_NSC);
		for (i = 0; i < na; i++)
			env_sc_errno[ab[i]] = (ab[i] == ENV_SC_EPOLL_PWAIT2 && mc_arg_int("pwait2_eperm", 0)) ? EPERM : ENOSYS;
	}
	for (i = 0; i < NFD; i++)
		F[i].lfd = F[i].pfd = -1;

	if (mc_arg_int("exclsets", 0)) {
		/* every exclusion set but "all four", in three spellings; the library must pick the first method not excluded */
		static char ex[128];
		int sub = 1 + mc_choose(15, MC_CONFIG, "exclusion-set") - 1, sp = mc_choose(3, MC_CONFIG, "spelling"), k, first = 1;
		ex[0] = 0;
		for (k = 0; k < 4; k++) {
			int m = sp == 1 ? 3 - k : k;
			if (!((sub >> m) & 1))
				continue;
			if (!first)
				strcat(ex, sp == 2 ? "   " : " ");
			if (sp == 2 && first)
				strcat(ex, " ");
			strcat(ex, method_name[m]);
			first = 0;
		}
		for (k = 0; k < 4 && ((sub >> k) & 1); k++)
			;
		method_idx = k;
		env_exclude_methods = ex;
		mc_obs("exclude=\"%s\"", ex);
	} else {
		method_idx = methods[mc_choose(nm, MC_CONFIG, "method")];
		env_exclude_methods = method_excl[method_idx];
	}
	if (mc_arg_int("poisons", 0)) {
		/* what uninitialised caller memory looks like is not ours to choose: a few byte patterns */
		static const int pz[4] = { 0xbe, 0x01, 0x03, 0x07 };
		poison = pz[mc_choose(4, MC_CONFIG, "poison-byte")];
	}
	si = seedl[mc_choose(ns, MC_CONFIG, "seed")];
	if (si < 0 || si >= NSEEDS)
		mc_broken("bad seed index %d", si);
	sd = &seeds[si];
	mc_obs("m=%s seed=%s", method_name[method_idx], sd->name);

	cycles = mc_arg_int("cycles", 1);
next_cycle:
	allocs0 = env_lib_allocs_live;
	iv_init();
	if (cycle == 0 && strcmp(iv_poll_method_name(), method_name[method_idx])) {
		/* with timerfd_create/ppoll absent the library legitimately settles on the next method */
		if (!env_sc_errno[ENV_SC_TIMERFD_CREATE] && !env_sc_errno[ENV_SC_PPOLL])
			FAIL("method-select", "excluded \"%s\" but the library selected %s", env_exclude_methods, iv_poll_method_name());
	}
	if (mc_arg_int("cloexec_probe", 0)) {
		/* a write-only descriptor (pipe write end) handed to the library must come back non-blocking and close-on-exec too */
		int pp[2], fl;
		struct iv_fd *pf = malloc(sizeof(*pf));
		if (pipe(pp) < 0)
			mc_broken("pipe");
		memset(pf, poison, sizeof(*pf));
		IV_FD_INIT(pf);
		pf->fd = pp[1];
		pf->cookie = NULL;
		pf->handler_out = NULL;
		if (mc_choose(2, MC_CONFIG, "probe-via-try")) {
			in_try = 1;
			if (iv_fd_register_try(pf) != 0)
				FAIL("try-failed", "iv_fd_register_try failed on a pipe write end");
			in_try = 0;
		} else {
			iv_fd_register(pf);
		}
		fl = fcntl(pp[1], F_GETFL);
		if (!(fl & O_NONBLOCK))
			FAIL("fd-mode", "registered write-only descriptor not switched to O_NONBLOCK");
		fl = fcntl(pp[1], F_GETFD);
		if (!(fl & FD_CLOEXEC))
			FAIL("fd-mode", "registered write-only descriptor not switched to FD_CLOEXEC");
		iv_fd_unregister(pf);
		memset(pf, 0xbe, sizeof(*pf));
		free(pf);
		close(pp[0]);
		close(pp[1]);
	}
	autofeed_left = 0;
	for (i = 0; sd->a[i].op >= 0; i++)
		perform(&sd->a[i]);
	autofeed_left = sd->autofeed;
	script_iter = sd->script_iter;
	script_act = sd->script;
	script_done = 0;
	autotask_left = mc_arg_int("autotask", 0);
	if (mc_arg_int("epoch0", 0)) {
		/* start from a loop that has already gone round many times (the per-loop round counter is internal state) */
		iv_get_state()->task_epoch = (uint32_t)strtoul(mc_arg("epoch0", "0"), NULL, 10);
	}
	reenter_left = mc_arg_int("reenter", 1);
	for (i = 0; i < setup_acts; i++) {
		int n = build_menu(menu, 128, 0);
		c = mc_choose(1 + n, MC_ACTION, "setup");
		if (c == 0)
			break;
		perform(&menu[c - 1]);
	}
	mc_obs("main");
	in_main = 1;
	quit_req = 0;
	iv_main();
	in_main = 0;
	main_returned = 1;
	mc_obs("ret");
	if (!quit_req && model_count() != 0)
		FAIL("main-return-early", "iv_main returned although %d objects are registered and iv_quit was not called", model_count());
	if (quit_req && model_count() != 0 && reenter_left > 0 && iter < horizon) {
		/* iv_quit only ends this run of the loop: entering iv_main again must carry on with everything still registered */
		reenter_left--;
		mc_obs("main-again");
		memset(tasks_ran_since_wait, 0, sizeof(tasks_ran_since_wait));     /* a new run of the loop is a new round */
		in_main = 1;
		quit_req = 0;
		iv_main();
		in_main = 0;
		mc_obs("ret");
		if (!quit_req && model_count() != 0)
			FAIL("main-return-early", "second iv_main returned although %d objects are registered and iv_quit was not called", model_count());
	}

	/* tear down what is left (valid API use), then the thread's loop */
	for (i = 0; i < NFD; i++) if (F[i].reg) fd_do_unreg(&F[i]);
	for (i = 0; i < NTM; i++) if (T[i].reg) { struct act a = { OP_TM_UNREG, i, 0, 0 }; perform(&a); }
	for (i = 0; i < NTK; i++) if (K[i].reg) { struct act a = { OP_TK_UNREG, i, 0, 0 }; perform(&a); }
	for (i = 0; i < NEV; i++) if (E[i].reg) { struct act a = { OP_EV_UNREG, i, 0, 0 }; perform(&a); }
	for (i = 0; i < NRAW; i++) if (RW[i].reg) { struct act a = { OP_RAW_UNREG, i, 0, 0 }; perform(&a); }
	for (i = 0; i < NSIG; i++) if (SG[i].reg) { struct act a = { OP_SIG_UNREG, i, 0, 0 }; perform(&a); }
	iv_deinit();
	if (env_lib_allocs_live != allocs0)
		FAIL("leak-mem", "%ld library allocations still live after iv_deinit", env_lib_allocs_live - allocs0);
	if (env_lib_fds_open()) {
		char b[256];
		env_lib_fds_list(b, sizeof(b));
		FAIL("leak-fd", "library descriptors still open after iv_deinit: %s", b);
	}
	if (++cycle < cycles) {
		/* init / use / deinit again in the same thread: nothing may have been carried over */
		mc_obs("cycle%d", cycle);
		iter = 0;
		zero_progress_waits = 0;
		empty_polls = 0;
		main_returned = 0;
		goto next_cycle;
	}
	mc_done();
}

int main(int argc, char **argv)
{
	static const struct mc_harness h = { .name = "h_loop", .exec = exec_one, .timeout_s = 20 };
	return mc_main(argc, argv, &h);
}
